"""Table of the property checks: budgets per tier, evidence texts, manifest entries."""
import json
import os

VERIF = os.path.dirname(os.path.abspath(__file__))

COMMON_ASSUME = [
    "the Go toolchain, encoding/json, encoding/gob, net/url and pgregory.net/rapid v1.3.0 behave as documented",
    "a run is a function of (/repo working tree, VERIF_SEED, tier); native fuzz campaigns (thorough) are not seed-reproducible, their saved crasher is",
]

PROPS = {}


def prop(pid, **kw):
    kw.setdefault("test", "Test" + pid)
    kw.setdefault("level", "exploration")
    kw["assumptions"] = kw.get("assumptions", []) + COMMON_ASSUME
    PROPS[pid] = kw


prop(
    "C13",
    title="Reference values canonicalise idempotently and survive JSON and gob",
    technique="property-based testing (rapid): generated URL-grammar reference strings against idempotence / classification / JSON+gob round-trip oracles; native Go fuzzing over raw strings in the thorough tier",
    rule="reference strings drawn from a URL grammar (scheme in any case, host[:port]/IPv6, 0-4 path segments incl. dot/escaped/non-ASCII/empty, query, fragment forms) plus 5% free strings over a URL alphabet; strings url.Parse rejects or that carry userinfo are outside the domain (counted under excluded). Non-trivial = the canonical text differs from the input; distinct by hash of the input string",
    design_ref="DESIGN.md §4 C13",
    level_text="exploration: tens of thousands (quick) to millions (thorough) of generated reference strings, every one checked against the idempotence, classification, JSON-form and gob/JSON round-trip oracles; the canonicaliser lives in the jsonreference dependency so the part of the property owned by this repository is the JSON/gob codec and the carriers, which every case exercises",
    level_note="trusts net/url for deciding what is URL syntax; the canonical form itself is defined by the implementation (the oracle demands idempotence and stability of classification, not a particular normal form)",
    quick=dict(checks=40000, shards=8),
    thorough=dict(checks=150000, shards=16, fuzz=[("FuzzC13", 45)]),
)

GRAPH_RULE = ("multi-document reference graphs from gen.Graph: 1-5 documents at file/http/https URLs in different directories (incl. the prefix-confusable root.json2), "
              "definitions/parameters/responses/path items with hostile names, schema trees over every sub-schema keyword, $ref holes wired to any position of the right kind "
              "(multi-hop chains, back references, ancestors => cycles) and spelled fragment-only / relative / ./ / root-relative / absolute (also non-canonically, and with minimal percent-escaping); "
              "names equal up to case or to trailing white space; documents that are plain schemas or JSON arrays; in 20% of the graphs a twin document (same pointers, other labels, some $refs redirected to it). ")

prop(
    "C02",
    title="Expansion preserves the meaning of every element (bisimilar reference graphs)",
    technique="property-based testing (rapid) against an independent reference model: RFC 3986 + RFC 6901 resolution on decoded JSON, meaning compared by bisimulation of input and output reference graphs",
    rule=GRAPH_RULE + "Each graph is expanded (ExpandSpec, AbsoluteCircularRef drawn) twice from fresh decodes. Non-trivial = the graph has a cross-document $ref, a chain of >=2 hops or a cycle; distinct by hash of the canonical JSON of all documents",
    design_ref="DESIGN.md §4 C02",
    level_text="exploration: thousands (quick) to ~10^5 (thorough) random reference graphs, each expanded and compared element by element with the model's co-inductive unfolding; every content node carries a unique label so a resolution in the wrong document is visible",
    level_note="the oracle's notion of meaning is the model in harness/model (net/url.ResolveReference + own JSON-pointer evaluator); `$ref` siblings are ignored as the code documents; elements whose own $ref chain never reaches content are exempt",
    quick=dict(checks=2000, shards=16),
    thorough=dict(checks=6000, shards=16),
)

prop(
    "C03",
    title="Expansion leaves only resolvable cycle cut-points; acyclic specs end $ref-free",
    technique="property-based testing (rapid) with a model-based cut-point oracle: parallel walk of input and output, every remaining $ref resolved with the reference model and checked to lie on a cycle of the input graph; byte-determinism over repeated expansions of acyclic inputs",
    rule=GRAPH_RULE + "50% of graphs are wired acyclic by construction. Free-form payloads containing the key $ref are planted. Before the random part every run enumerates the family of small graphs without ids (every digraph on <=2 nodes in the quick tier, <=3 in the thorough tier, x 13 placements of the $ref among the sub-schema keywords x 4 entry kinds x same/other document) through the same oracles. Non-trivial = cyclic graph, or acyclic graph with >=2 documents; distinct by hash of the canonical JSON of all documents / of the small-graph descriptor",
    exhaustive_note="every cycle topology on <=2 (quick) / <=3 (thorough) nodes x placement x entry kind x same/other document, AbsoluteCircularRef alternating",
    design_ref="DESIGN.md §4 C03",
    level_text="exploration: random reference graphs (half acyclic by construction, half with arbitrary cycle topologies incl. cycles spanning documents and entered from parameters/responses/path items); every remaining $ref is checked for resolvability from the root, for designating a node on a cycle of the input (computed by the model, not by the implementation), and for its spelling; acyclic inputs are checked $ref-free and byte-deterministic over 5 expansions",
    level_note="cycle membership is computed on the reference model's graph of positions; the spelling rule demanded without AbsoluteCircularRef is: fragment-only into the root, relative (no scheme, no absolute path) for documents below the root's directory",
    quick=dict(checks=1500, shards=16),
    thorough=dict(checks=5000, shards=16),
)

prop(
    "C08",
    title="Expansion never fails silently: bad $refs become errors or stay in place",
    technique="property-based testing (rapid) with fault injection: generated reference graphs with $refs redirected to missing/ill-typed targets and documents refused by the loader; error-ness and continue-mode output compared with the reference model's reachability analysis",
    rule=GRAPH_RULE + "Faults: each $ref is rewritten with probability 4% to a missing pointer, a missing document, or a target that is a string/number/boolean/array; each non-root document is refused by the loader with probability 6%; ContinueOnError drawn. Non-trivial = at least one unresolvable $ref is reachable and at least one root element depends on none; distinct by hash of the case",
    design_ref="DESIGN.md §4 C08",
    level_text="exploration over (graph, fault set, mode): strict mode is checked in both directions (error iff the model finds a reachable unresolvable $ref); continue mode is checked for nil error, for every unresolvable schema $ref being left verbatim at the position the unfolding puts it, and for all unaffected elements being bisimilar to the input",
    level_note="'has to follow' is the model's path-cut unfolding from the root document's definitions, parameters, responses and paths; elements depending on an unresolvable parameter/response/path-item $ref are exempt in continue mode (the statement pins schema $refs only)",
    quick=dict(checks=3000, shards=16),
    thorough=dict(checks=6000, shards=16),
)

prop(
    "C09",
    title="Skip-schemas mode expands all but schemas and keeps their $refs valid",
    technique="property-based testing (rapid) with a model-based oracle: parallel walk of input and SkipSchemas output comparing the designated position of every schema $ref (reference model), bisimulation, and a differential two-step vs direct full expansion",
    rule=GRAPH_RULE + "Non-trivial = some parameter/response/path item imported from another document carries a schema $ref whose text had to be rewritten; distinct by hash of the canonical JSON of all documents",
    design_ref="DESIGN.md §4 C09",
    level_text="exploration: random multi-document graphs expanded with SkipSchemas; checked: definitions equal the merely re-encoded input, no $ref left at parameter/response/path-item positions of well-founded elements, every schema $ref still a $ref designating exactly the same position as before (fragment-only into the root), whole result bisimilar to the input, and full expansion of the result agrees with direct full expansion (error-ness, bisimilarity, bytes when acyclic)",
    level_note="positions are compared after RFC 3986 resolution against the root URL; the codec's canonicalisation of $ref strings (e.g. %61 -> a) is not counted as touching definitions",
    quick=dict(checks=1500, shards=16),
    thorough=dict(checks=4000, shards=16),
)

prop(
    "C04",
    title="Expansion terminates without crashing on every reference graph",
    technique="property-based testing (rapid) with process isolation: each generated expansion job runs in a worker subprocess under a bounded stack; outcome must be result-or-error, work (hooked step counter) bounded by the reference model's acyclic unfolding size; plus exhaustive enumeration of small reference graphs",
    rule=GRAPH_RULE + "C04 knobs: cycle bias 25%, ids (absolute, relative file, fragment) on 17% of schemas in 35% of graphs, faults (dangling / ill-typed targets, absent members of every nil kind, index-like tokens that designate nothing, refused documents; a third of the broken graphs carry a single kind, densely) in 40% of graphs, a sweep of up to 24 dangling index-like pointers below list members of every root (ExpandSchema and ResolveRef, typed and generic root), all seven entry points, all combinations of SkipSchemas/ContinueOnError/AbsoluteCircularRef. Non-trivial = the graph is cyclic, carries an id or has a refused document; distinct by hash of the case. Exhaustive part: see coverage.exhaustive_note",
    exhaustive_note="every digraph on <=2 (quick) / <=3 (thorough) nodes x placement of the $ref under each sub-schema keyword x entry kind of node 0 x same/other document x id variants x the 4 SkipSchemas/ContinueOnError combinations, run through ExpandSpec and the single-element entry point of node 0",
    design_ref="DESIGN.md §4 C04",
    level_text="exploration + exhaustive enumeration of a bounded space: termination, absence of panics/stack overflows and a work bound are observed per job in an isolated worker (16 MiB stack), so a runaway recursion is a deterministic, attributable outcome",
    level_note="the work bound (steps <= 4*U+64, U = model's path-cut unfolding size) is calibrated: observed maximum ratio ~1.6; it detects unbounded or super-unfolding work, not constant-factor slowdowns; wall clock is only a watchdog (20 s, re-run alone with 120 s)",
    quick=dict(checks=800, shards=8),
    thorough=dict(checks=4000, shards=16),
)

VOCAB_RULE = ("values drawn from a hand-written vocabulary table of the Swagger 2.0 and JSON-Schema draft-4 meta-schemas (checked at start-up to cover exactly the meta-schemas' keywords) "
              "for all object kinds, in normal form, with hostile member names (quotes, backslashes, control/non-ASCII characters, regex syntax, keyword look-alikes), zero-valued validations (35%), "
              "vendor extensions, unknown schema keywords and free-form payloads (default/example/enum/examples/x-*) containing null, empty containers and nested mixtures; nesting depth <= 4. ")

prop(
    "C01",
    title="JSON round-trip is lossless for the whole Swagger 2.0 vocabulary",
    technique="property-based testing (rapid): vocabulary-driven normal-form documents, oracle = decode/encode/generic-decode round trip compared as JSON values (diff atoms); deterministic single-keyword sweep over every keyword of every kind in every run",
    rule=VOCAB_RULE + "Every run first sweeps every (kind, flavour, keyword) alone on a minimal instance (3 value draws each), then draws random combinations for a random kind among the 15 decode targets. Non-trivial = instance has >=3 keywords or nesting depth >=2 or a hostile name / zero validation / extension; distinct by hash of kind+document",
    design_ref="DESIGN.md §4 C01",
    level_text="exploration: the single-keyword sweep covers every keyword of every kind in every run (so a dropped or mis-tagged member is found deterministically), random combinations and nesting add interaction coverage; the oracle lists every lost, invented or changed member as an atom",
    level_note="the normal form is built into the generator exactly as the statement words it; $ref/$schema/id strings are drawn canonical (canonicalisation is C13's business); required strings are drawn empty in 1.5% of cases to keep known finding K5 visible, matched per atom",
    quick=dict(checks=6000, shards=8),
    thorough=dict(checks=15000, shards=16),
)

prop(
    "C14",
    title="Gob transport preserves the document",
    technique="property-based testing (rapid): vocabulary-driven documents decoded into Swagger/Operation/Parameter/Schema/Response, oracle = JSON(gobDecode(gobEncode(v))) equals JSON(v) as a JSON value, discrepancies listed as atoms and matched structurally against the known findings",
    rule=VOCAB_RULE + "Targets: Swagger, Operation, Parameter, Schema, Response (Ref is covered by C13). security may be absent, [], or hold empty requirement objects and empty scope lists. Half of the cases are generated without zero validations and without empty arrays in payloads so that losses other than K3/K4 are not masked. Non-trivial = the value carries a zero validation, a null or empty container inside a payload, or an empty security requirement; distinct by hash of kind+document",
    design_ref="DESIGN.md §4 C14",
    level_text="exploration: thousands of documents per run through a real gob encoder/decoder pair; every difference between the JSON before and after is an atom; only atoms matching the two listed known findings (zero-valued numeric validation lost; [] inside a free-form payload turned into null) are tolerated, each judged by position with the vocabulary's typed walk",
    level_note="gob type registration is the package's own (init in swagger.go); free-form payload positions are determined by the vocabulary table, not by the implementation",
    quick=dict(checks=3000, shards=16),
    thorough=dict(checks=12000, shards=16),
)

prop(
    "C20",
    title="Validation accessors are lossless and the clear operations are exact",
    technique="model-based property testing (rapid): generated operation sequences (set / with / get / clear-family with 0-3 callbacks) on each carrier, compared after every step with a reference model that is a plain map keyword -> value; plus a deterministic sweep over presence subsets of the 15 validation keywords",
    rule="carriers: Schema, Parameter, Header, Items, bare CommonValidations and SchemaValidations, each filled with sentinel values in all non-validation fields (vocabulary generator); validation sets draw each of the 15 keywords independently with values including 0, empty and non-empty enum / patternProperties; sequences of 1-6 operations. Sweep: presence subsets of the 15 keywords (all 2^15 in the thorough tier, every 8th in quick) x 6 carriers through a fixed 7-operation sequence and 4 orders of the clear operations. Non-trivial = some written set is neither empty nor full or holds a zero value; distinct by hash of the case",
    exhaustive_note="thorough tier: all 2^15 presence subsets of the validation keywords x 6 carriers; quick tier: a 1/8 sample of them (exhaustive=false)",
    design_ref="DESIGN.md §4 C20",
    level_text="exploration with an exhaustive sub-space in the thorough tier: after every operation the validations readable back, the Has* queries, the encoded members and every non-validation field are compared with the model; callbacks must receive exactly the (keyword, previous value) pairs of the members that were set, once each; clears must commute",
    level_note="'set' means: pointer non-nil, boolean true, string non-empty, slice/map non-nil - the representation the accessors themselves use; simple carriers ignore the three object validations, as documented",
    quick=dict(checks=4000, shards=8),
    thorough=dict(checks=20000, shards=16),
)

prop(
    "C15",
    title="Pointer lookups on typed documents agree with their JSON form",
    technique="property-based testing (rapid), differential oracle: every JSON pointer of a generated document is evaluated on the typed decoding and on the generic decoding of its encoding; results compared as JSON values",
    rule=VOCAB_RULE + "Roots: Swagger documents (weight 3) and every other listed kind as a root of its own. Every pointer of the encoded document is enumerated (hundreds to thousands per document); excluded: pointers with a $ref token, and x- members of contact/license/externalDocs/xml objects (kinds the statement does not list). Non-trivial = pointer has >=3 tokens or an escaped token (counted per document and, sampled 1 in 7, per pointer); distinct by hash of kind+pointer / kind+document",
    design_ref="DESIGN.md §4 C15",
    level_text="exploration: ~10^5 (quick) to ~10^7 (thorough) typed lookups, each compared with the lookup on the document's own JSON form; an error or panic on the typed side is a failure; tokens needing ~0/~1, status codes, `default`, extension members and unknown schema keywords are all produced by the vocabulary generator",
    level_note="trusts github.com/go-openapi/jsonpointer on generic (map/slice) values as the reference evaluator",
    quick=dict(checks=3000, shards=8),
    thorough=dict(checks=15000, shards=16),
)

prop(
    "C07",
    title="Decoding is total and its normalisation is idempotent",
    technique="property-based testing (rapid) with structure-aware mutation of vocabulary documents (wrong JSON types, nulls, empty containers, duplicate members, case-folded keywords, extreme number tokens, odd $ref strings, deep nesting), arbitrary bytes and JSON-ish strings, every exported model type as decode target; oracle = no panic + encoded form is a byte-level fixed point of decode/encode; native Go fuzzing per decode type in the thorough tier; deep-nesting probe in an isolated worker",
    rule="70% structure-aware mutants (1-3 mutations) of vocabulary documents, 10% unmutated documents decoded into a possibly unrelated type, 10% free-form JSON values, 10% arbitrary bytes / JSON-ish strings; 45 decode targets (all exported model types incl. the unions and *Props structs). Inputs in which some member name case-folds onto a keyword (detected on the final document, over-approximated with the keywords of all kinds) are checked for totality only. Non-trivial = a mutation changed a JSON type/emptiness or duplicated a member; distinct by hash of target+text",
    design_ref="DESIGN.md §4 C07",
    level_text="exploration: every input must decode to a value or an error without panic; when decode and encode succeed, decoding and encoding the encoded form must reproduce it byte for byte (diff atoms otherwise); depth 2000 and 12000 nesting probes run in a worker with a bounded stack and a watchdog",
    level_note="the case-fold exemption is the statement's own; a duplicate member is legal JSON for encoding/json (last one wins) and is in the domain",
    quick=dict(checks=6000, shards=8),
    thorough=dict(checks=30000, shards=16, fuzz=[("FuzzC07Schema", 25), ("FuzzC07Swagger", 20), ("FuzzC07Parameter", 15), ("FuzzC07Responses", 15), ("FuzzC07PathItem", 15), ("FuzzC07SecurityScheme", 10)]),
)

prop(
    "C06",
    title="Encoding is well-formed, collision-free and deterministic",
    technique="property-based testing (rapid): (a) model values decoded from vocabulary documents inside and outside the normal form (mutated, arbitrary x-order values), (b) a generated sequence of builder-API calls interpreted step by step (model-based: the value itself is read back by direct field access); oracle = strict order-preserving JSON scan (validity, duplicate member names), member-name sets of every map-valued container equal to what the model holds, 20 byte-identical encodings, byte-identical encodings after re-decoding with another member order, x-order/name ordering of properties",
    rule=VOCAB_RULE + "Family (a), 65%: a random kind (schema 40%), every properties/patternProperties member decorated with x-order drawn from ints, integer strings, ties, fractions and junk (70%), 35% additionally mutated outside the normal form. Family (b), 35%: 1-30 builder calls on Schema/Parameter/Header/Items/Operation/Response/SecurityScheme with hostile names, checked after every step, then assembled into a Swagger document. Non-trivial = a container with >=2 properties, a hostile name, or any builder sequence; distinct by hash of the case",
    design_ref="DESIGN.md §4 C06",
    level_text="exploration: encode errors are accepted, everything else must be valid JSON without repeated member names whose map containers parse back to exactly the keys the model holds (read from the Go value by field access, independently of the MarshalJSON methods); repeated encodings and encodings after a re-decode with shuffled member order must be byte-identical (this is what exposes map-iteration dependence); properties must come out in ascending integer x-order, ties and unordered ones by name",
    level_note="for non-integer x-order values only determinism is demanded (the statement does not fix how a fraction compares); emission rules that the code documents (only x- prefixed extensions, only /-prefixed paths are emitted) are applied to the model's keys before comparing",
    quick=dict(checks=3000, shards=16),
    thorough=dict(checks=12000, shards=16),
)

prop(
    "C12",
    title="$ref targets are located as RFC 3986 reference resolution prescribes",
    technique="exhaustive enumeration over a bounded alphabet plus property-based testing (rapid); differential oracle: the URL the document loader receives vs net/url's RFC 3986 ResolveReference of the $ref against the URL of the containing document",
    rule="exhaustive: references of 1-3 segments over {a, b.json, ., .., c%20d, é, x.y, %41, e%25f, ..a, ...} x prefix {relative, ./, root-relative /} x fragment {none, pointer} x 8 file/http/https bases at depth 0-2 (two without file extension), plus every base under the other scheme/host/port with the same path, each through three observers (the third: last hop of a parameter chain inside an imported path item; in the ExpandSpec observer the content found behind a fragment-only hop inside the designated document is checked too): ResolveRefWithBase (base = RelativeBase), ExpandSpec with the $ref sitting in a document imported from another root (base = that document's URL), and the chain; plus empty, fragment-only and absolute references. Random: up to 8 segments from a larger alphabet, ../ prefixes, non-ASCII and escaped bases, absolute refs in any case with default ports and duplicate slashes. Excluded with reasons: references designating a directory (last segment . or .., trailing /), %2F/%2E (escapes of delimiters), queries. Non-trivial = reference contains .., an escape or non-ASCII; distinct by hash of base+ref+observer",
    exhaustive_note="all 29,484 (reference, base) pairs of the bounded alphabet minus the excluded directory references, x 2 observers, in every run of either tier",
    design_ref="DESIGN.md §4 C12",
    level_text="exhaustive over the bounded alphabet (every run) + exploration of longer references: the single URL handed to the loader must equal the standard resolution with the fragment removed, compared as URLs (scheme, host, decoded path); a reference designating the containing document itself must cause no other request",
    level_note="net/url.ResolveReference is the reference implementation of RFC 3986 section 5; URL comparison is modulo percent-encoding normalisation (RFC 3986 6.2.2); absolute references are compared after the canonicalisation of C13",
    quick=dict(checks=3000, shards=8),
    thorough=dict(checks=20000, shards=16, fuzz=[("FuzzC12", 40)]),
)

prop(
    "C05",
    title="Resolving a reference returns exactly the designated sub-document",
    technique="property-based testing (rapid) against the reference model (RFC 3986 resolution + RFC 6901 pointer evaluation on decoded JSON), differential across the three ways of supplying the root (typed, generic JSON, location only) and across all Resolve* entry points",
    rule=GRAPH_RULE + "Names additionally include quotes, backslashes and newlines; 25% of graphs carry faults. The reference targets a position drawn from every schema/parameter/response/path-item/items position of every document (nested pointers through every keyword), spelled relative to the root or (30%) to another document; 5/12 of the references are then made dangling or ill-typed (missing pointer, missing document, index into an object, unset known member, other kind). Non-trivial = pointer needs an escape, or target in another document, or pointer depth >= 4; distinct by hash of the case",
    design_ref="DESIGN.md §4 C05",
    level_text="exploration: each case is resolved through every applicable entry point and root mode; the result must equal the model's designated sub-document decoded into the requested kind (compared as JSON values, nested $refs verbatim), a reference designating nothing must give an error and never a zero value, the root's JSON and the caller's options must be unchanged afterwards",
    level_note="the entry points without base (ResolveRef, ResolveParameter, ResolveResponse) are exercised on their documented domain: references into the root that designate the requested kind; the base document is never one the loader refuses",
    quick=dict(checks=5000, shards=16),
    thorough=dict(checks=15000, shards=16),
)

prop(
    "C10",
    title="Single-element expanders agree with spec expansion and never touch the root",
    technique="property-based testing (rapid) against the reference model: every referable element of a generated root expanded through every entry point (typed root, generic root, base location), the result spliced back into the root and compared by bisimulation + cut-point validity; root JSON and caller options compared before/after",
    rule=GRAPH_RULE + "Domain split as the API documents: half of the cases are graphs whose $refs are fragment-only or absolute URLs (60% of them single-document) and go through all six entry points with typed and generic roots; the other half are full multi-document graphs with relative $refs and go through the base-location entry points (ExpandSchemaWithBasePath, ExpandParameter, ExpandResponse). Every definition, parameter and response of the root is expanded. Non-trivial = some expanded element reaches a $ref; distinct by hash of the case",
    design_ref="DESIGN.md §4 C10",
    level_text="exploration: the guarantees of whole-spec expansion (C02 meaning, C03 completeness and cut-points) are checked for each single-element call by putting the result back at the element's position; a panic or an error on a graph whose $refs all resolve is a failure; the root passed as context (deep-compared as JSON) and the option structure must be unchanged",
    level_note="the element is decoded on its own, so it shares no storage with the root; the root-based entry points do not know the root's location, so the fragment-only spelling rule is demanded of the base-location entry points only",
    quick=dict(checks=800, shards=16),
    thorough=dict(checks=2500, shards=16),
)

prop(
    "C18",
    title="A resolution cache is transparent; documents are fetched at most once",
    technique="property-based testing (rapid), differential/metamorphic oracle: the same expansion with no cache, a fresh logging cache, a cache pre-loaded with a generated subset of the documents and one cache reused across a generated sequence of expansions; outputs compared byte-wise (acyclic) or by bisimulation (cyclic), loader traffic checked against the at-most-once and never-request-what-is-cached rules",
    rule=GRAPH_RULE + "65%: multi-document graphs, sequences of 1-4 ExpandSchemaWithBasePath calls on definitions of the root; 35%: fragment-only/absolute-URL graphs, sequences over ExpandSchema / ExpandParameterWithRoot / ExpandResponseWithRoot with typed and generic roots; each document independently pre-loaded with probability 1/2; every case ends with one ExpandSpec for the at-most-once clause. Non-trivial = an expansion reads >=2 documents and something was pre-loaded or the cache was reused; distinct by hash of the case",
    design_ref="DESIGN.md §4 C18",
    level_text="exploration: 4 cache states per expansion; byte equality of outputs for acyclic elements, bisimilarity with the input + cut-point validity for cyclic ones (their text legitimately depends on map order); per expansion no URL is requested twice, no pre-loaded URL is requested at all, a reused cache makes later expansions request nothing that an earlier one loaded; loader URLs and cache keys must be canonical absolute URLs",
    level_note="the harness' ResolutionCache is a plain logging map; pre-loaded documents are generic JSON under their canonical URLs",
    quick=dict(checks=800, shards=16),
    thorough=dict(checks=2000, shards=16),
)

prop(
    "C11",
    title="The root location may be spelled in any equivalent way",
    technique="property-based testing (rapid), metamorphic oracle: one generated multi-document graph expanded from 3-7 generated equivalent spellings of its root location; error-ness, outputs (bytes when acyclic, bisimulation + cut-points otherwise) and the set of URLs requested from the loader must agree with the canonical spelling, and every requested URL must be canonical",
    rule=GRAPH_RULE + "The documents are relocated to one of four homes: absolute file URLs, file URLs below the working directory of the test process (so that relative spellings exist), http and https (with port and path prefix). Spellings are made from the canonical URL or a relative path by 1-3 rewrites drawn from: insert ./, insert zz/../, double a slash, upper-case the scheme, append a fragment, append a query (file only), switch between plain path, file:/ and file:///. Not generated because the statement does not list them: host case, default ports, file:name without slash. Non-trivial = at least 3 spellings and some external document requested; distinct by hash of the case",
    design_ref="DESIGN.md §4 C11",
    level_text="exploration: every spelling is compared with the canonical one; a requested URL with a fragment, a relative or unclean path, a missing scheme or (for files) a query is reported; the caller's RelativeBase must be unchanged after the call",
    level_note="relative spellings are taken against the working directory of the test process (documents are served in memory under file://<cwd>/w/...); the replay re-enters that directory",
    quick=dict(checks=800, shards=16),
    thorough=dict(checks=2500, shards=16),
)

prop(
    "C16",
    title="Calls share no hidden state",
    technique="stateful property-based testing (rapid): generated histories of expansion/resolution calls over a mutable in-memory document store whose documents change content (same URLs) between calls; invariant after every call = model oracle on the store as it is now + loader traffic equals the model's reachable documents + built-in meta-schemas still equal to the embedded assets; differential re-execution of sampled calls in a fresh worker process",
    rule="2-3 variants of a multi-document graph over the same URL pool (same root URL, hence the same pseudo root), every content label prefixed with its variant so stale content is visible; histories of 3-13 steps drawn from: switch the store to another variant, ExpandSpec of variant v's root (AbsoluteCircularRef drawn), a base-location single-element expansion, a resolution into the built-in Swagger 2.0 / draft-4 meta-schemas, the expansion of a $ref-free schema whose root declares an `id` (relative, same scheme and host as the documents, elsewhere); none of the calls gets a cache; the option structure passed in must compare equal to a copy taken before the call and remaining cut-point $refs must be spelled as a call without history spells them; in 15% of the histories every acyclic call is re-run in a fresh process. Non-trivial = the documents changed between two calls that read them; distinct by hash of the history",
    design_ref="DESIGN.md §4 C16",
    level_text="exploration over histories: a result is compared with what the documents hold at the time of the call (bisimulation with uniquely labelled content), so anything learnt from an earlier call and wrongly reused shows up as a label of the wrong variant; the set of URLs requested during the call must equal the documents reachable from its arguments (nothing served from an earlier call); the meta-schemas are resolved with a loader that refuses everything and compared with freshly decoded embedded assets",
    level_note="the root document passed in memory is also what the loader serves under the root URL during that call; histories are bounded (<= 13 steps) - hidden state that needs a longer history to manifest is out of reach",
    quick=dict(checks=400, shards=8),
    thorough=dict(checks=1200, shards=16),
)

prop(
    "C17",
    title="Concurrent use on independent data is race-free with sequential answers",
    technique="property-based testing (rapid) of generated concurrency plans executed under the Go race detector (binary built with -race, GORACE=halt_on_error=1): N goroutines x op lists over ExpandSpec on own decodes, ExpandSchema with own / no / one shared cache, ExpandSchema and Resolve against a shared read-only typed root, json.Marshal and pointer lookups on a shared document; every concurrent result compared with the same op run alone; 12% of the plans run in a fresh process so that lazily initialised package state is first used concurrently",
    rule="plans: 2/4/8/16 goroutines, 1-4 ops each, GOMAXPROCS in {1,2,4,16}, 0-3 runtime.Gosched() calls before each op, over a generated multi-document graph (<=3 documents) whose root always holds array parameters and array headers with nested items; 35% of the plans have a second set of documents under the same URLs served by another (slow) loader to the odd goroutines, 40% share one ExpandOptions value per set among all goroutines; further ops: expansion of schemas whose id or base location is not a URL. Non-trivial = at least two ops touch shared data (the shared cache, the shared typed root or document); distinct by hash of the plan",
    design_ref="DESIGN.md §4 C17",
    level_text="exploration of op mixes, not of interleavings: the race detector is sound for the happens-before relation of the executed run, so what the generator varies and the evidence reports is which operations run against which shared data; results must equal the sequential ones (bytes when the element is acyclic and the call succeeds, error-ness always); a plan that does not finish within 90 s is reported as a deadlock",
    level_note="the harness cannot own the Go scheduler: a race that needs an interleaving which never occurs in the executed runs is missed, and a schedule-dependent failure is not shrunk (the plan in flight when the detector stops the process is the replay; the replay command re-runs it up to 20 times)",
    race=True,
    quick=dict(checks=60, shards=8, timeout=600),
    thorough=dict(checks=200, shards=16),
)

prop(
    "C19",
    title="Round trip and expansion keep a valid Swagger 2.0 document valid",
    technique="property-based testing (rapid) with an independent validity oracle: generated schema-valid Swagger 2.0 documents (checked valid before use by python jsonschema's Draft4Validator against the schema shipped with the package, long-lived subprocess) are decoded+encoded and expanded, and the results validated again; an invalid result is explained differentially against known finding K5 or reported",
    rule="whole Swagger documents from the validity-preserving variant of the vocabulary generator: every security flavour, every parameter location, simple- and body-schema forms, responses with headers/examples, tags, external docs, extensions, hostile names, local well-founded $refs (#/definitions, #/parameters, #/responses) wired to existing names; documents the validator rejects are generator bugs: counted, skipped, and the run fails its health check above 15% rejection. Required strings are drawn empty in 1.2% of the positions of 10% of the documents (K5 steering); the repository's own schema-valid fixtures run through the same oracle. Non-trivial = document has security schemes, parameters and responses; distinct by hash of the document",
    design_ref="DESIGN.md §4 C19",
    level_text="exploration with an independent oracle: validate(encode(decode(d))) and validate(encode(ExpandSpec(decode(d)))) for validator-approved d; an invalid result is tolerated only if re-inserting exactly the dropped empty required strings makes it valid again (known finding K5), judged by the validator itself",
    level_note="trusts python-jsonschema 4.x's Draft-4 implementation (format assertions off) and the meta-schema files under /repo/schemas; documents with an unfounded parameter/response/path item are exempt from the expansion half, as the statement says",
    quick=dict(checks=1000, shards=8),
    thorough=dict(checks=2500, shards=16),
)


def manifest():
    allids = []
    with open(os.path.join(VERIF, "properties.jsonl")) as f:
        for line in f:
            line = line.strip()
            if line:
                allids.append(json.loads(line)["id"])
    checks = []
    for pid in sorted(PROPS):
        c = PROPS[pid]
        checks.append({
            "property_id": pid,
            "quick_cmd": f"./check {pid} --tier quick",
            "thorough_cmd": f"./check {pid} --tier thorough",
            "evidence_file": f"/verif/evidence/{pid}.json",
            "replay_cmd_template": f"./check {pid} --replay {{path}}",
            "engine": "rapid-harness",
            "level_claimed": {"category": c.get("level", "exploration"), "text": c["level_text"], "design_ref": c.get("design_ref", "DESIGN.md")},
            "level_note": c["level_note"],
            "technique": c["technique"],
        })
    na = []
    try:
        with open(os.path.join(VERIF, "not_applicable.json")) as f:
            reasons = json.load(f)
    except OSError:
        reasons = {}
    for pid in allids:
        if pid not in PROPS:
            na.append({"property_id": pid, "reason": reasons.get(pid, "check not built yet at this commit (work in progress; see DESIGN.md for the plan)")})
    hooks_commits = []
    try:
        with open(os.path.join(VERIF, "hooks.json")) as f:
            hooks_commits = json.load(f).get("source_commits", [])
    except OSError:
        pass
    return {
        "version": 1,
        "setup_cmd": "./setup.sh",
        "hooks": {
            "guard": "verif",
            "enable": "go test -c -tags verif (the driver ./check builds harness/props with -tags verif against /repo through a module replace)",
            "baseline_off_cmd": "cd /repo && GOFLAGS=-mod=mod GOPROXY=off GOSUMDB=off GOTOOLCHAIN=local go test -json -vet=off -count=1 -timeout 25m ./...",
            "source_commits": hooks_commits,
            "add_only": True,
        },
        "engines": [
            {"name": "rapid-harness", "path": "/verif/harness", "serves_properties": sorted(PROPS),
             "kind_free_text": "Go module: reference model of $ref semantics (model/), rapid generators (gen/), one property file per id (props/), driven by the python driver ./check which shards seeds over processes, runs native fuzz campaigns in the thorough tier and merges evidence"},
        ],
        "checks": checks,
        "not_applicable": na,
        "notes": "All checks: ./check <id> --tier quick|thorough (env VERIF_SEED, VERIF_TIER honoured). Exit 2 = inconclusive (build failure / driver time-out), never a violation. Known findings: /verif/known-findings.json.",
    }
