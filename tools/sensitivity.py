#!/usr/bin/env python3
"""Print the sensitivity tables (markdown) from tools/mutants-results.json and seeded/*/meta.json.
   tools/sensitivity.py                 print them
   tools/sensitivity.py --update-design replace the block between the SENSITIVITY markers of DESIGN.md"""
import glob
import json
import os
import sys

VERIF = os.path.dirname(os.path.dirname(os.path.abspath(__file__)))


def tables():
    out = []
    res = json.load(open(os.path.join(VERIF, "tools", "mutants-results.json")))
    out.append("### Hand-written mutants (`tools/mutants.py`; quick tier of the checks named for each)\n")
    out.append("| mutant | suite | verdict per check |")
    out.append("|---|---|---|")
    for mid in sorted(res):
        r = res[mid]
        v = ", ".join(f"{p}: {x}" for p, x in sorted(r["props"].items()))
        out.append(f"| {mid} | {r.get('suite') or '-'} | {v} |")
    out.append("\n### Independently seeded changes (`seeded/<id>/`; quick tier, seed 1, of the property each was written against)\n")
    out.append("Ids: `-1`/`-2` first round, `-3`/`-4` second, `-5`/`-6` third, `-7` fourth, `-8`/`-9` fifth, `-10` sixth. The second column is the head of the author's own notes.\n")
    out.append("| id | what it is / what it needs to manifest | verdict |")
    out.append("|---|---|---|")
    n = caught = 0
    for m in sorted(glob.glob(os.path.join(VERIF, "seeded", "*", "meta.json"))):
        d = json.load(open(m))
        note = " ".join(d.get("needs_to_manifest", "").replace("#", "").split())[:230].replace("|", "/")
        v = ", ".join(f"{p}: {x['verdict']}" for p, x in sorted(d.get("checks_run", {}).items()))
        n += 1
        caught += all(x["verdict"] == "caught" for x in d.get("checks_run", {}).values()) and bool(d.get("checks_run"))
        out.append(f"| {d['id']} | {note} | {v} |")
    out.append(f"\n{caught} of {n} seeded changes caught by the quick tier of their own property (last `tools/seeded.py runall`).")
    seeds = {}
    for m in sorted(glob.glob(os.path.join(VERIF, "seeded", "*", "meta.json"))):
        d = json.load(open(m))
        for p, by in d.get("other_seeds", {}).items():
            for sd, v in by.items():
                seeds.setdefault(sd, [0, 0])
                seeds[sd][0] += 1
                seeds[sd][1] += v == "caught"
    for sd in sorted(seeds):
        out.append(f"At VERIF_SEED={sd} (`tools/seeded.py robust`): {seeds[sd][1]} of {seeds[sd][0]} caught.")
    return "\n".join(out)


def main():
    t = tables()
    if "--update-design" in sys.argv:
        p = os.path.join(VERIF, "DESIGN.md")
        s = open(p).read()
        b, e = "<!-- SENSITIVITY:BEGIN -->", "<!-- SENSITIVITY:END -->"
        assert b in s and e in s
        s = s[:s.index(b) + len(b)] + "\n" + t + "\n" + s[s.index(e):]
        open(p, "w").write(s)
    else:
        print(t)


if __name__ == "__main__":
    main()
