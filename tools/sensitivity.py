#!/usr/bin/env python3
"""Print the sensitivity tables (markdown) from tools/mutants-results.json and seeded/*/meta.json."""
import json, os, glob
VERIF = os.path.dirname(os.path.dirname(os.path.abspath(__file__)))
res = json.load(open(os.path.join(VERIF, "tools", "mutants-results.json")))
print("### Hand-written mutants (`tools/mutants.py`; quick tier)\n")
print("| mutant | suite | verdict per check |")
print("|---|---|---|")
for mid in sorted(res):
    r = res[mid]
    v = ", ".join(f"{p}: {x}" for p, x in sorted(r["props"].items()))
    print(f"| {mid} | {r.get('suite') or '-'} | {v} |")
print("\n### Independently seeded changes (`seeded/<id>/`; quick tier of the property they were written against)\n")
print("| id | what it needs to manifest (first lines of the author's notes) | verdict |")
print("|---|---|---|")
for m in sorted(glob.glob(os.path.join(VERIF, "seeded", "*", "meta.json"))):
    d = json.load(open(m))
    note = " ".join(d.get("needs_to_manifest", "").split())[:260].replace("|", "/")
    v = ", ".join(f"{p}: {x['verdict']}" for p, x in sorted(d.get("checks_run", {}).items()))
    print(f"| {d['id']} | {note} | {v} |")
