"""Hand-written mutants of go-openapi/spec used to test the sensitivity of the checks.
Each compiles; most pass the repository's own suite (checked with tools/mutate.py --suite)."""

MUTANTS = []


def M(id, file, old, new, props):
    MUTANTS.append(dict(id=id, file=file, old=old, new=new, props=props))


# ---- expander / loader ------------------------------------------------------
M("exp-transitive-always-self", "schema_loader.go",
  "	if ref.IsRoot() || ref.HasFragmentOnly {\n		return r\n	}\n\n	baseRef := MustCreateRef(basePath)",
  "	if ref.IsRoot() || ref.HasFragmentOnly || true {\n		return r\n	}\n\n	baseRef := MustCreateRef(basePath)", ["C02"])
M("exp-drop-updateBasePath", "schema_loader.go",
  "			return normalizeBase(transitive.options.RelativeBase)\n", "			return basePath\n", ["C02"])
M("exp-skip-dependencies", "expander.go",
  "		if target.Dependencies[k].Schema != nil {", "		if false && target.Dependencies[k].Schema != nil {", ["C02", "C03"])
M("exp-skip-additionalItems", "expander.go",
  "	if target.AdditionalItems != nil && target.AdditionalItems.Schema != nil {", "	if false && target.AdditionalItems != nil {", ["C02", "C03"])
M("exp-skip-anyOf", "expander.go",
  "	for i := range target.AnyOf {\n		t, err := expandSchema(", "	for i := range target.AnyOf[:0] {\n		t, err := expandSchema(", ["C03"])
M("exp-skip-not", "expander.go", "	if target.Not != nil {", "	if false && target.Not != nil {", ["C03"])
M("exp-items-wrong-base", "expander.go",
  "		t, err := expandSchema(*target.Items.Schema, parentRefs, resolver, basePath)",
  "		t, err := expandSchema(*target.Items.Schema, parentRefs, resolver, resolver.context.basePath)", ["C02"])
M("exp-denormalize-absolute", "expander.go",
  "		if !resolver.options.AbsoluteCircularRef {\n			target.Ref = denormalizeRef(normalizedRef, resolver.context.basePath, resolver.context.rootID)",
  "		if false {\n			target.Ref = denormalizeRef(normalizedRef, resolver.context.basePath, resolver.context.rootID)", ["C03"])
M("exp-circular-ignore-memo", "schema_loader.go",
  "	if _, ok := r.context.circulars[normalizedRef]; ok {", "	if _, ok := r.context.circulars[normalizedRef]; ok && false {", ["C02", "C03"])
M("exp-circular-ref-not-denormalized-when-abs-off", "expander.go",
  "		} else {\n			target.Ref = *normalizedRef\n		}\n		return &target, nil",
  "		} else {\n			target.Ref = *normalizedRef\n		}\n		target.Ref = *normalizedRef\n		return &target, nil", ["C03"])
M("exp-memo-marks-noncycle", "schema_loader.go",
  "	foundCycle = swag.ContainsStrings(parentRefs, normalizedRef) // normalized windows url's are lower cased\n	if foundCycle {",
  "	foundCycle = swag.ContainsStrings(parentRefs, normalizedRef) // normalized windows url's are lower cased\n	if foundCycle || len(parentRefs) > 3 {", ["C03"])

# ---- C08 error handling -----------------------------------------------------
M("err-load-swallow", "schema_loader.go",
  "	b, err := r.context.loadDoc(normalized)\n	if err != nil {\n		return nil, url.URL{}, false, err\n	}",
  "	b, err := r.context.loadDoc(normalized)\n	if err != nil {\n		return map[string]interface{}{}, toFetch, false, nil\n	}", ["C08"])
M("err-defs-continue-always", "expander.go",
  "			def, err := expandSchema(definition, parentRefs, resolver, specBasePath)\n			if resolver.shouldStopOnError(err) {",
  "			def, err := expandSchema(definition, parentRefs, resolver, specBasePath)\n			if false && resolver.shouldStopOnError(err) {", ["C08"])
M("err-properties-swallow", "expander.go",
  "		t, err := expandSchema(target.Properties[k], parentRefs, resolver, basePath)\n		if resolver.shouldStopOnError(err) {",
  "		t, err := expandSchema(target.Properties[k], parentRefs, resolver, basePath)\n		if false && resolver.shouldStopOnError(err) {", ["C08"])
M("err-responses-swallow", "expander.go",
  "			if err := expandParameterOrResponse(&response, resolver, basePath); resolver.shouldStopOnError(err) {\n				return err\n			}\n			responses.StatusCodeResponses[code] = response",
  "			if err := expandParameterOrResponse(&response, resolver, basePath); false && resolver.shouldStopOnError(err) {\n				return err\n			}\n			responses.StatusCodeResponses[code] = response", ["C08"])
M("err-continue-drops-guard", "expander.go",
  "	if t == nil || err != nil {", "	if t == nil {", ["C08"])
M("err-pointer-error-swallowed", "schema_loader.go",
  "		res, _, err = ref.GetPointer().Get(data)\n		if err != nil {\n			return err\n		}",
  "		res, _, err = ref.GetPointer().Get(data)\n		if err != nil {\n			return nil\n		}", ["C08"])
M("err-continue-stops-allof", "expander.go",
  "		t, err := expandSchema(target.AllOf[i], parentRefs, resolver, basePath)\n		if resolver.shouldStopOnError(err) {",
  "		t, err := expandSchema(target.AllOf[i], parentRefs, resolver, basePath)\n		if err != nil {", ["C08"])

# ---- C09 skip schemas -------------------------------------------------------
M("skip-rebase-current-base", "expander.go",
  "		target.Ref = denormalizeRef(&rebasedRef, resolver.context.basePath, resolver.context.rootID)\n\n		return &target, nil",
  "		target.Ref = denormalizeRef(&rebasedRef, basePath, resolver.context.rootID)\n\n		return &target, nil", ["C09"])
M("skip-no-nested-walk", "expander.go",
  "	s, err := expandSchema(*sch, parentRefs, resolver, basePath)\n	if resolver.shouldStopOnError(err) {\n		return err\n	}\n\n	if s != nil { // guard",
  "	if resolver.options.SkipSchemas && sch.Ref.String() == \"\" {\n		return nil\n	}\n	s, err := expandSchema(*sch, parentRefs, resolver, basePath)\n	if resolver.shouldStopOnError(err) {\n		return err\n	}\n\n	if s != nil { // guard", ["C09"])
M("skip-expands-definitions", "expander.go",
  "	if !options.SkipSchemas {\n		for key, definition := range spec.Definitions {", "	if true {\n		for key, definition := range spec.Definitions {", ["C09"])
M("skip-keeps-absolute", "expander.go",
  "		target.Ref = denormalizeRef(&rebasedRef, resolver.context.basePath, resolver.context.rootID)\n\n		return &target, nil",
  "		target.Ref = rebasedRef\n\n		return &target, nil", ["C09"])

# ---- C04 termination / crashes ----------------------------------------------
M("term-no-parentrefs-append", "expander.go",
  "	parentRefs = append(parentRefs, normalizedRef.String())\n	transitiveResolver := resolver.transitiveResolver(basePath, target.Ref)",
  "	transitiveResolver := resolver.transitiveResolver(basePath, target.Ref)", ["C04"])
M("term-circular-false-with-siblings", "expander.go",
  "	if resolver.isCircular(normalizedRef, basePath, parentRefs...) {\n		// this means there is a cycle in the recursion tree: return the Ref",
  "	if target.Description == \"\" && resolver.isCircular(normalizedRef, basePath, parentRefs...) {\n		// this means there is a cycle in the recursion tree: return the Ref", ["C04"])
M("term-deref-no-circular-check", "schema_loader.go",
  "	if r.isCircular(normalizedRef, basePath, parentRefs...) {\n		return nil\n	}\n\n	previous := *ref",
  "	previous := *ref", ["C04"])
M("term-p1-revert", "schema_loader.go", "		if isAbsent(res) {", "		if false && isAbsent(res) {", ["C04", "C08"])
M("term-continue-nil-deref", "expander.go",
  "	if s != nil { // guard for when continuing on error\n		*sch = *s\n	}",
  "	*sch = *s", ["C04"])
M("term-memo-off-exponential", "schema_loader.go",
  "	if _, ok := r.context.circulars[normalizedRef]; ok {", "	if _, ok := r.context.circulars[normalizedRef]; ok && false {", ["C04"])
M("term-items-ignores-cycle", "expander.go",
  "		t, err := expandSchema(*target.Items.Schema, parentRefs, resolver, basePath)",
  "		t, err := expandSchema(*target.Items.Schema, parentRefs[:0], resolver, basePath)", ["C04"])

# ---- C01 / codec -------------------------------------------------------------
M("codec-collectionformat-tag", "items.go", '`json:"collectionFormat,omitempty"`', '`json:"collectionformat2,omitempty"`', ["C01"])
M("codec-parameter-drops-extensions", "parameter.go",
  "	return swag.ConcatJSON(b3, b1, b2, b4, b5), nil", "	return swag.ConcatJSON(b3, b1, b2, b5), nil", ["C01"])
M("codec-schema-drops-extraprops", "schema.go",
  "	if s.ExtraProps != nil {\n		jj, err := json.Marshal(s.ExtraProps)", "	if s.ExtraProps != nil && false {\n		jj, err := json.Marshal(s.ExtraProps)", ["C01"])
M("codec-minlength-zero-dropped", "validations.go",
  "	MinLength        *int64        `json:\"minLength,omitempty\"`", "	MinLength        *int64        `json:\"minLength,omitempty\"`\n	_ int", ["C01"])
M("codec-header-revert-d1", "header.go", "	return swag.ConcatJSON(b1, b2, b3, b4), nil", "	return swag.ConcatJSON(b1, b2, b3), nil", ["C01"])
M("codec-responses-drop-default-ext", "responses.go", "	if res.Default != nil {", "	if res.Default != nil && len(res.StatusCodeResponses) == 0 {", ["C01"])
M("codec-secscheme-tokenurl", "security_scheme.go", '`json:"tokenUrl,omitempty"`', '`json:"tokenURL,omitempty"`', ["C01"])
M("codec-pathitem-head-as-options", "path_item.go", '`json:"head,omitempty"`', '`json:"head2,omitempty"`', ["C01"])

# ---- C20 validations ---------------------------------------------------------
M("val-schema-set-forgets-minitems", "schema.go", "	s.MinItems = val.MinItems\n	s.UniqueItems = val.UniqueItems", "	s.UniqueItems = val.UniqueItems", ["C20"])
M("val-cleararray-clears-enum", "validations.go", "		v.UniqueItems = false\n	}\n}", "		v.UniqueItems = false\n	}\n	v.Enum = nil\n}", ["C20"])
M("val-hasnumber-ignores-multipleof", "validations.go", "	return v.Maximum != nil || v.Minimum != nil || v.MultipleOf != nil", "	return v.Maximum != nil || v.Minimum != nil", ["C20"])
M("val-clearstring-keeps-maxlength-zero", "validations.go", "	if v.MaxLength != nil {\n		done = append(done, clearedValidation{Validation: \"maxLength\"", "	if v.MaxLength != nil && *v.MaxLength != 0 {\n		done = append(done, clearedValidation{Validation: \"maxLength\"", ["C20"])
M("val-callback-wrong-name", "validations.go", "clearedValidation{Validation: \"minItems\", Value: v.MinItems}", "clearedValidation{Validation: \"maxItems\", Value: v.MinItems}", ["C20"])
M("val-clearobject-keeps-patternprops", "validations.go", "		v.PatternProperties = nil\n", "", ["C20"])
M("val-common-set-skips-exclusivemin", "validations.go", "	v.ExclusiveMinimum = val.ExclusiveMinimum\n", "", ["C20"])
M("val-callbacks-only-first", "validations.go", "	for _, cb := range cbs {\n		for _, cleared := range c {", "	for _, cb := range cbs[:min(1, len(cbs))] {\n		for _, cleared := range c {", ["C20"])

# ---- C12 / C11 normalisation -------------------------------------------------
M("norm-join-without-dir", "normalizer.go", "		baseURL.Path = path.Join(path.Dir(baseURL.Path), refURL.Path)", "		baseURL.Path = path.Join(baseURL.Path, refURL.Path)", ["C12"])
M("norm-keep-base-fragment", "normalizer.go", "	// copying fragment from ref to base\n	baseURL.Fragment = refURL.Fragment\n", "", ["C12"])
M("norm-no-clean-ref", "normalizer.go", "	refURL.Path = path.Clean(refURL.Path)\n	if refURL.Path == \".\" {\n		refURL.Path = \"\"\n	}\n\n	r := MustCreateRef", "	r := MustCreateRef", ["C12"])
M("norm-abs-path-appended", "normalizer.go", "	if path.IsAbs(refURL.Path) {\n		baseURL.Path = refURL.Path", "	if path.IsAbs(refURL.Path) && false {\n		baseURL.Path = refURL.Path", ["C12"])
M("norm-dotdot-at-three-levels", "normalizer.go", "		baseURL.Path = path.Join(path.Dir(baseURL.Path), refURL.Path)", "		baseURL.Path = path.Join(path.Dir(baseURL.Path), refURL.Path)\n		if strings.Count(refURL.Path, \"../\") >= 3 {\n			baseURL.Path = path.Join(path.Dir(path.Dir(baseURL.Path)), path.Base(baseURL.Path))\n		}", ["C12"])

# ---- C10 / C18 / C16 state and caches ------------------------------------------
M("state-options-not-cloned", "expander.go",
  "		clone := *opts // shallow clone to avoid internal changes to be propagated to the caller\n		if clone.RelativeBase != \"\" {\n			clone.RelativeBase = normalizeBase(clone.RelativeBase)\n		}\n		// if the relative base is empty, let the schema loader choose a pseudo root document\n		return &clone",
  "		if opts.RelativeBase != \"\" {\n			opts.RelativeBase = normalizeBase(opts.RelativeBase)\n		}\n		return opts", ["C10", "C11"])
M("state-cache-key-unnormalized", "schema_loader.go", "	r.cache.Set(normalized, doc)\n", "	r.cache.Set(pth, doc)\n", ["C18"])
M("state-cache-no-set", "schema_loader.go", "	r.cache.Set(normalized, doc)\n", "", ["C18"])
M("state-cache-lookup-after-load", "schema_loader.go",
  "	data, fromCache := r.cache.Get(normalized)\n	if fromCache {\n		return data, toFetch, fromCache, nil\n	}\n\n	b, err := r.context.loadDoc(normalized)",
  "	b, err := r.context.loadDoc(normalized)\n	data, fromCache := r.cache.Get(normalized)\n	if fromCache {\n		return data, toFetch, fromCache, nil\n	}\n", ["C18"])
M("state-default-cache-shared", "cache.go", "	return resCache.ShallowClone()", "	return resCache", ["C16", "C18"])
M("state-shallowclone-shares-map", "cache.go", "	return &simpleCache{\n		store: store,\n	}", "	_ = store\n	return &simpleCache{\n		store: s.store,\n	}", ["C16"])
M("state-root-written-through", "schema_loader.go",
  "	if (ref.IsRoot() || ref.HasFragmentOnly) && root != nil {\n		data = root",
  "	if (ref.IsRoot() || ref.HasFragmentOnly) && root != nil {\n		if sw, ok := root.(*Swagger); ok && sw.Info != nil {\n			sw.Info.Description = \"touched\"\n		}\n		data = root", ["C10", "C05"])
M("state-baseforroot-ignores-preloaded", "expander.go", "		if found && cachedRoot != nil {", "		if found && cachedRoot != nil && false {", ["C10", "C18"])

# ---- C11 location spellings ---------------------------------------------------
M("loc-base-no-clean", "normalizer.go", "	u.Path = path.Clean(u.Path)\n	if u.Path == \".\" { // empty after Clean()", "	if u.Path == \".\" { // empty after Clean()", ["C11"])
M("loc-base-keeps-fragment", "normalizer.go", "	u.Fragment = \"\" // any fragment in the base is irrelevant\n", "", ["C11"])
M("loc-base-lowercases-path", "normalizer.go", "	u.Path = path.Clean(u.Path)\n	if u.Path == \".\" { // empty after Clean()", "	u.Path = strings.ToLower(path.Clean(u.Path))\n	if u.Path == \".\" { // empty after Clean()", ["C11"])
M("loc-base-no-abspath", "normalizer.go", "	u.Path = absPath(u.Path) // platform-dependent", "	u.Path = \"/\" + u.Path", ["C11"])
M("loc-n1-revert", "normalizer.go", "				u.RawQuery = \"\" // any query component is irrelevant for a local file\n", "", ["C11"])
M("loc-options-base-written-back", "expander.go", "	options = optionsOrDefault(options)\n	resolver := defaultSchemaLoader(spec, options, nil, nil)", "	if options != nil && options.RelativeBase != \"\" {\n		options.RelativeBase = normalizeBase(options.RelativeBase)\n	}\n	options = optionsOrDefault(options)\n	resolver := defaultSchemaLoader(spec, options, nil, nil)", ["C11"])
M("state-context-circulars-global", "schema_loader.go", "		circulars: make(map[string]bool),", "		circulars: globalCirculars,", ["C16"])

# ---- C17 concurrency ----------------------------------------------------------
M("race-cache-get-unlocked", "cache.go", "	s.lock.RLock()\n	v, ok := s.store[uri]\n\n	s.lock.RUnlock()", "	v, ok := s.store[uri]\n", ["C17"])
M("race-once-replaced-by-nil-check", "cache.go", "	onceCache.Do(initResolutionCache)\n", "	if resCache == nil {\n		initResolutionCache()\n	}\n", ["C17"])
M("race-debuglog-counter", "debug.go", "func debugLog(msg string, args ...interface{}) {", "var debugCalls int\n\nfunc debugLog(msg string, args ...interface{}) {\n	debugCalls++", ["C17"])
M("race-default-cache-shared", "cache.go", "	return resCache.ShallowClone()", "	return resCache", ["C17"])
M("race-shallowclone-unlocked-shares", "cache.go", "	return &simpleCache{\n		store: store,\n	}", "	_ = store\n	return &simpleCache{\n		store: s.store,\n	}", ["C17"])

# ---- C19 validity ---------------------------------------------------------------
M("valid-response-description-omitted", "response.go", "	if r.Ref.String() == \"\" {\n		// when there is no $ref", "	if r.Ref.String() == \"\" && r.Description != \"\" {\n		// when there is no $ref", ["C19", "C01"])
M("valid-paths-omitempty", "swagger.go", '`json:"paths"`', '`json:"paths,omitempty"`', ["C19", "C01"])
M("valid-ref-left-next-to-content", "expander.go", "	pathItem.Ref = Ref{}\n	for i := range pathItem.Parameters {", "	for i := range pathItem.Parameters {", ["C19", "C03"])
M("valid-param-ref-kept", "expander.go", "	// $ref expansion or rebasing is performed by expandSchema below\n	if ref != nil {\n		*ref = Ref{}\n	}", "	// $ref expansion or rebasing is performed by expandSchema below", ["C19", "C03"])
M("valid-security-null-scopes", "swagger.go", "func (s SwaggerProps) MarshalJSON() ([]byte, error) {", "func (s SwaggerProps) MarshalJSON() ([]byte, error) {\n	for _, req := range s.Security {\n		for k, v := range req {\n			if len(v) == 0 {\n				req[k] = nil\n			}\n		}\n	}", ["C19", "C01"])
