#!/usr/bin/env python3
"""Run the repository's pinned suite (guard off) and compare with /root/.vp/BASELINE.json stable_pass."""
import json, subprocess, os, sys
env = dict(os.environ, GOFLAGS="-mod=mod", GOPROXY="off", GOSUMDB="off", GOTOOLCHAIN="local")
repo = sys.argv[1] if len(sys.argv) > 1 else "/repo"
p = subprocess.run(["go", "test", "-json", "-vet=off", "-count=1", "-timeout", "25m", "./..."], cwd=repo, env=env, stdout=subprocess.PIPE, stderr=subprocess.STDOUT, text=True)
passed, failed = set(), set()
for line in p.stdout.splitlines():
    try:
        e = json.loads(line)
    except ValueError:
        continue
    if e.get("Test") and e.get("Action") in ("pass", "fail"):
        (passed if e["Action"] == "pass" else failed).add(e["Package"] + "::" + e["Test"])
base = set(json.load(open("/root/.vp/BASELINE.json"))["stable_pass"])
missing = sorted(base - passed)
# sub-tests of TestExpandCircular_Spec2Expansion are named after the $refs that happen to remain,
# which depends on map iteration order (also on the unmodified tree): tolerate those when the parent passed
def parent(m):
    pkg, _, test = m.partition("::")
    return pkg + "::" + test.split("/")[0]
flaky = [m for m in missing if "/" in m.partition("::")[2] and parent(m) in passed and m not in failed]
missing = [m for m in missing if m not in flaky]
if flaky:
    print(f"  note: {len(flaky)} baseline sub-test name(s) did not occur in this run (order-dependent names, parent passed): {flaky[:3]}")
print(f"baseline={len(base)} passed={len(passed)} failed={len(failed)} baseline-not-passed={len(missing)}")
for m in missing[:20]:
    print("  MISSING", m)
for m in sorted(failed)[:20]:
    print("  FAILED", m)
sys.exit(1 if missing or failed else 0)
