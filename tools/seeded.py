#!/usr/bin/env python3
"""Confirm and evaluate a seeded change.

  tools/seeded.py confirm <dir>        <dir> holds patch.diff + demo_test.go (+ notes.md): in a scratch
                                      worktree of /repo check that the patch applies and compiles, that the
                                      repository's suite still passes with it, that the demo fails with it
                                      and passes without it.
  tools/seeded.py run <seeded-id> [props...]
                                      apply /verif/seeded/<id>/patch.diff to /repo, run the quick checks of the
                                      given properties (default: the one named in meta.json), undo the patch.
  tools/seeded.py runall              run every kept seeded change against its property's check.
  tools/seeded.py robust <seed>...    the same at other seeds (recorded under other_seeds in meta.json).
"""
import json
import os
import shutil
import subprocess
import sys
import time

VERIF = os.path.dirname(os.path.dirname(os.path.abspath(__file__)))
ENV = dict(os.environ, GOFLAGS="-mod=mod", GOPROXY="off", GOSUMDB="off", GOTOOLCHAIN="local",
           VERIF_EVIDENCE_DIR=os.path.join(VERIF, ".build", "mutant-evidence"))


def sh(cmd, cwd=None, timeout=1800):
    return subprocess.run(cmd, shell=True, cwd=cwd, env=ENV, stdout=subprocess.PIPE, stderr=subprocess.STDOUT, text=True, timeout=timeout)


def confirm(d, race=False):
    d = os.path.abspath(d)
    raceflag = "-race " if race else ""
    wt = "/tmp/seed-confirm-%d" % os.getpid()
    sh(f"git -C /repo worktree remove --force {wt}")
    r = sh(f"git -C /repo worktree add --detach {wt}")
    if r.returncode != 0:
        print(r.stdout)
        return None
    res = {}
    try:
        demo = os.path.join(d, "demo_test.go")
        shutil.copy(demo, os.path.join(wt, "zz_seeded_demo_test.go"))
        r = sh("go test -vet=off -count=1 -run 'Seed|Demo|Test' ./... 2>&1 | tail -5", cwd=wt)
        # demo without the patch: run only the tests defined in the demo file
        names = [l.split("(")[0].split()[1] for l in open(demo) if l.startswith("func Test")]
        pat = "^(" + "|".join(names) + ")$"
        r = sh(f"go test {raceflag}-vet=off -count=1 -run '{pat}' .", cwd=wt)
        res["demo_without_patch"] = "pass" if r.returncode == 0 else "FAIL"
        res["demo_tests"] = names
        a = sh(f"git apply {os.path.join(d, 'patch.diff')}", cwd=wt)
        if a.returncode != 0:
            res["apply"] = "FAIL: " + a.stdout[-300:]
            return res
        res["apply"] = "ok"
        b = sh("go build ./... && go vet . 2>&1 | head -3", cwd=wt)
        res["build"] = "ok" if b.returncode == 0 else "FAIL " + b.stdout[-300:]
        r = sh(f"go test {raceflag}-vet=off -count=1 -run '{pat}' .", cwd=wt)
        res["demo_with_patch"] = "FAIL" if r.returncode != 0 else "pass"
        os.remove(os.path.join(wt, "zz_seeded_demo_test.go"))
        for attempt in range(4):
            s = sh("go test -vet=off -count=1 .", cwd=wt)
            if s.returncode == 0 or "address already in use" not in s.stdout:
                break  # (the suite binds port 1234: retry when another suite holds it)
            time.sleep(5)
        res["suite_with_patch"] = "pass" if s.returncode == 0 else "FAIL " + s.stdout[-400:]
        res["ok"] = (res["demo_without_patch"] == "pass" and res["demo_with_patch"] == "FAIL" and res["suite_with_patch"] == "pass" and res["build"] == "ok")
    finally:
        sh(f"git -C /repo worktree remove --force {wt}")
    return res


def run(sid, props, seed=None):
    d = os.path.join(VERIF, "seeded", sid)
    meta = json.load(open(os.path.join(d, "meta.json")))
    props = props or [meta["property"]]
    if sh("git -C /repo status --porcelain").stdout.strip():
        print("/repo is not clean")
        return None
    out = {}
    try:
        a = sh(f"git -C /repo apply {os.path.join(d, 'patch.diff')}")
        if a.returncode != 0:
            print("patch does not apply to /repo:", a.stdout[-300:])
            return None
        for p in props:
            t0 = time.time()
            r = sh(f"./check {p} --tier quick" + (f" --seed {seed}" if seed else ""), cwd=VERIF, timeout=2400)
            verdict = {0: "MISSED", 1: "caught", 2: "inconclusive"}.get(r.returncode, str(r.returncode))
            first = [l for l in r.stdout.splitlines() if l.startswith(("VIOLATION", "INCONCLUSIVE"))]
            out[p] = {"verdict": verdict, "seconds": round(time.time() - t0, 1), "line": first[0][:200] if first else "", "cmd": f"git -C /repo apply seeded/{sid}/patch.diff; ./check {p} --tier quick; git -C /repo checkout -- ."}
            if seed:
                meta.setdefault("other_seeds", {}).setdefault(p, {})[str(seed)] = verdict
            else:
                meta.setdefault("checks_run", {})[p] = out[p]
            json.dump(meta, open(os.path.join(d, "meta.json"), "w"), indent=1)
            print(f"{sid:28s} {p} {verdict:12s} {time.time()-t0:6.1f}s {first[0][:120] if first else ''}", flush=True)
    finally:
        sh("git -C /repo checkout -- .")
    return out


def main():
    if len(sys.argv) < 2:
        print(__doc__)
        return 2
    if sys.argv[1] == "confirm":
        print(json.dumps(confirm(sys.argv[2], race="--race" in sys.argv), indent=1))
        return 0
    if sys.argv[1] == "import":
        # tools/seeded.py import <dir> <id> <origin text>: confirm, and when confirmed keep it as seeded/<id>/
        src, sid, origin = sys.argv[2], sys.argv[3], sys.argv[4]
        res = confirm(src, race="--race" in sys.argv)
        print(sid, json.dumps(res))
        if not res or not res.get("ok"):
            return 1
        dst = os.path.join(VERIF, "seeded", sid)
        os.makedirs(dst, exist_ok=True)
        for f in ("patch.diff", "demo_test.go", "notes.md"):
            if os.path.exists(os.path.join(src, f)):
                shutil.copy(os.path.join(src, f), os.path.join(dst, f))
        notes = open(os.path.join(dst, "notes.md")).read() if os.path.exists(os.path.join(dst, "notes.md")) else ""
        meta = {"id": sid, "property": sid.split("-")[0], "origin": origin, "needs_to_manifest": notes,
                "confirmed_by_me": {"how": "tools/seeded.py confirm (scratch worktree under /tmp, removed afterwards): patch applies and compiles; repository suite passes with the patch; demo fails with the patch and passes without", "result": res}}
        json.dump(meta, open(os.path.join(dst, "meta.json"), "w"), indent=1)
        return 0
    if sys.argv[1] == "run":
        run(sys.argv[2], sys.argv[3:])
        return 0
    if sys.argv[1] == "robust":
        # tools/seeded.py robust <seed> [<seed>...]: every kept change against its property's check at other seeds
        only = os.environ.get("SEEDED_ONLY", "")  # e.g. SEEDED_ONLY="-7 -8 -9": ids ending in one of these
        for seed in sys.argv[2:]:
            for sid in sorted(os.listdir(os.path.join(VERIF, "seeded"))):
                if only and not sid.endswith(tuple(only.split())):
                    continue
                if os.path.exists(os.path.join(VERIF, "seeded", sid, "meta.json")):
                    run(sid, [], seed=int(seed))
        return 0
    if sys.argv[1] == "runall":
        results = {}
        for sid in sorted(os.listdir(os.path.join(VERIF, "seeded"))):
            if os.path.exists(os.path.join(VERIF, "seeded", sid, "meta.json")):
                results[sid] = run(sid, sys.argv[2:])
        json.dump(results, open(os.path.join(VERIF, "seeded", "last-run.json"), "w"), indent=1)
        return 0
    return 2


if __name__ == "__main__":
    sys.exit(main())
