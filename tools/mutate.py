#!/usr/bin/env python3
"""Sensitivity runs: apply each hand-written mutant of go-openapi/spec to /repo, run the
named checks, revert. Usage: tools/mutate.py [--suite] [--tier quick] [id-substring ...]

Mutants live in tools/mutants.py (id, file, old, new, props). /repo must be clean.
Results are appended to tools/mutants-results.json (informational, not evidence)."""
import json
import os
import subprocess
import sys
import time

VERIF = os.path.dirname(os.path.dirname(os.path.abspath(__file__)))
sys.path.insert(0, os.path.join(VERIF, "tools"))
from mutants import MUTANTS  # noqa: E402

ENV = dict(os.environ, GOFLAGS="-mod=mod", GOPROXY="off", GOSUMDB="off", GOTOOLCHAIN="local", VERIF_EVIDENCE_DIR=os.path.join(VERIF, ".build", "mutant-evidence"))


def sh(cmd, **kw):
    return subprocess.run(cmd, shell=True, env=ENV, stdout=subprocess.PIPE, stderr=subprocess.STDOUT, text=True, **kw)


def main():
    args = [a for a in sys.argv[1:] if not a.startswith("--")]
    suite = "--suite" in sys.argv
    tier = "quick"
    if sh("git -C /repo status --porcelain").stdout.strip():
        print("/repo is not clean")
        return 2
    results = []
    for m in MUTANTS:
        if args and not any(a in m["id"] for a in args):
            continue
        path = os.path.join("/repo", m["file"])
        src = open(path).read()
        if src.count(m["old"]) != 1:
            print(f"{m['id']}: pattern occurs {src.count(m['old'])}x in {m['file']} - skipped")
            continue
        try:
            open(path, "w").write(src.replace(m["old"], m["new"]))
            b = sh("cd /repo && go build ./...")
            if b.returncode != 0:
                print(f"{m['id']}: does not compile\n{b.stdout[-500:]}")
                continue
            row = {"id": m["id"], "props": {}, "suite": None}
            if suite:
                s = sh("cd /repo && go test -vet=off -count=1 ./...")
                row["suite"] = "pass" if s.returncode == 0 else "FAIL"
            for p in m["props"]:
                t0 = time.time()
                r = sh(f"cd {VERIF} && timeout 900 ./check {p} --tier {tier}")
                verdict = {0: "MISSED", 1: "caught", 2: "inconclusive"}.get(r.returncode, str(r.returncode))
                row["props"][p] = verdict
                first = [l for l in r.stdout.splitlines() if l.startswith("VIOLATION") or l.startswith("INCONCLUSIVE")]
                print(f"{m['id']:45s} {p} {verdict:8s} {time.time()-t0:5.1f}s suite={row['suite']} {first[0][:110] if first else ''}", flush=True)
            results.append(row)
        finally:
            open(path, "w").write(src)
    sh("git -C /repo checkout -- .")
    out = os.path.join(VERIF, "tools", "mutants-results.json")
    try:
        old = json.load(open(out))
    except (OSError, ValueError):
        old = {}
    for r in results:
        old[r["id"]] = r
    json.dump(old, open(out, "w"), indent=1, sort_keys=True)
    return 0


if __name__ == "__main__":
    sys.exit(main())
