#!/bin/sh
# Soak: quick tier at many seeds, thorough tier at a few, on the unchanged tree. Evidence goes to a scratch directory.
cd "$(dirname "$0")/.."
export VERIF_EVIDENCE_DIR=/verif/.build/soak-evidence
for seed in $QUICK_SEEDS; do
  tools/run_all.py --seed $seed 2>&1 | grep -v "rc=0" | sed "s/^/quick seed=$seed: /"
  echo "quick seed=$seed done"
done
for seed in $THOROUGH_SEEDS; do
  tools/run_all.py --tier thorough --seed $seed 2>&1 | grep -v "rc=0" | sed "s/^/thorough seed=$seed: /"
  echo "thorough seed=$seed done"
done
