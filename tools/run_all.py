#!/usr/bin/env python3
"""Run every registered check on the current tree (default: quick tier) and print a summary.
Usage: tools/run_all.py [--tier quick|thorough] [--seed N] [ids...]"""
import os, subprocess, sys, time, json
VERIF = os.path.dirname(os.path.dirname(os.path.abspath(__file__)))
sys.path.insert(0, VERIF)
from props import PROPS
args = sys.argv[1:]
tier, seed = "quick", "1"
ids = []
i = 0
while i < len(args):
    if args[i] == "--tier": tier = args[i+1]; i += 2
    elif args[i] == "--seed": seed = args[i+1]; i += 2
    else: ids.append(args[i]); i += 1
bad = 0
for pid in sorted(PROPS):
    if ids and pid not in ids: continue
    t0 = time.time()
    r = subprocess.run(["./check", pid, "--tier", tier, "--seed", seed], cwd=VERIF, stdout=subprocess.PIPE, stderr=subprocess.STDOUT, text=True)
    last = [l for l in r.stdout.splitlines() if l.startswith(("OK", "VIOLATION", "INCONCLUSIVE"))]
    kf = sum(1 for l in r.stdout.splitlines() if l.startswith("KNOWN-FINDING"))
    print(f"{pid} rc={r.returncode} {time.time()-t0:6.1f}s known-findings={kf} {last[0][:150] if last else r.stdout[-300:]}", flush=True)
    bad += r.returncode != 0
sys.exit(1 if bad else 0)
