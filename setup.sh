#!/bin/sh
# Offline setup: warm the Go build cache for the harness against /repo's current tree.
set -e
cd "$(dirname "$0")/harness"
export GOFLAGS=-mod=mod GOPROXY=off GOSUMDB=off GOTOOLCHAIN=local
mkdir -p ../.build
go test -c -tags verif -vet=off -o ../.build/setup.test ./props
rm -f ../.build/setup.test
echo setup ok
