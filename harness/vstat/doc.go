package vstat
