// Package vstat collects what a check actually covered (evaluations, label
// distribution, distinct non-trivial cases, samples), records failing cases as
// self-contained replay files and knows which findings are listed as known.
//
// Every process (shard, replay run, fuzz worker) writes its own files below
// $VERIF_OUT; the python driver merges them into /verif/evidence/<id>.json.
package vstat

import (
	"crypto/sha256"
	"encoding/binary"
	"encoding/hex"
	"encoding/json"
	"fmt"
	"hash/fnv"
	"os"
	"path/filepath"
	"sort"
	"sync"
)

// Atom is one elementary discrepancy found by an oracle.
type Atom struct {
	Kind   string `json:"kind"`            // e.g. LOST, INVENTED, CHANGED, PANIC, ERROR, ...
	Path   string `json:"path,omitempty"`  // where (JSON pointer, position, call ...)
	Detail string `json:"detail"`          // human readable
	Known  string `json:"known,omitempty"` // id of the known-findings entry whose structural matcher accepts this atom ("" = none)
}

func (a Atom) String() string {
	s := a.Kind
	if a.Path != "" {
		s += " " + a.Path
	}
	s += ": " + a.Detail
	if a.Known != "" {
		s += " [matches " + a.Known + "]"
	}
	return s
}

// Failure is the verdict of an oracle on one case.
type Failure struct {
	Atoms []Atom `json:"atoms"`
}

func (f *Failure) Add(kind, path, format string, args ...any) {
	f.Atoms = append(f.Atoms, Atom{Kind: kind, Path: path, Detail: fmt.Sprintf(format, args...)})
}

func (f *Failure) AddKnown(known, kind, path, format string, args ...any) {
	f.Atoms = append(f.Atoms, Atom{Kind: kind, Path: path, Detail: fmt.Sprintf(format, args...), Known: known})
}

func (f *Failure) Empty() bool { return f == nil || len(f.Atoms) == 0 }

func (f *Failure) String() string {
	if f.Empty() {
		return "ok"
	}
	s := ""
	for i, a := range f.Atoms {
		if i >= 12 {
			s += fmt.Sprintf("\n  ... %d more", len(f.Atoms)-i)
			break
		}
		s += "\n  " + a.String()
	}
	return s
}

// ---------------------------------------------------------------------------
// known findings

type knownEntry struct {
	ID       string `json:"id"`
	Property string `json:"property"`
	Status   string `json:"status"` // "known" | "fixed"
}

var (
	knownOnce sync.Once
	knownSet  map[string]bool
)

func loadKnown() {
	knownSet = map[string]bool{}
	p := os.Getenv("VERIF_KNOWN")
	if p == "" {
		p = "/verif/known-findings.json"
	}
	b, err := os.ReadFile(p)
	if err != nil {
		return
	}
	var f struct {
		Entries []knownEntry `json:"entries"`
	}
	if json.Unmarshal(b, &f) != nil {
		return
	}
	for _, e := range f.Entries {
		if e.Status == "known" {
			knownSet[e.Property+"/"+e.ID] = true
		}
	}
}

// IsKnown reports whether finding id is listed with status "known" for prop.
// A "fixed" entry suppresses nothing.
func IsKnown(prop, id string) bool {
	knownOnce.Do(loadKnown)
	return id != "" && knownSet[prop+"/"+id]
}

// Split partitions the atoms of f into those covered by a listed known finding
// and the rest.
func Split(prop string, f *Failure) (known, unknown []Atom) {
	if f == nil {
		return nil, nil
	}
	for _, a := range f.Atoms {
		if IsKnown(prop, a.Known) {
			known = append(known, a)
		} else {
			unknown = append(unknown, a)
		}
	}
	return
}

// ---------------------------------------------------------------------------
// recorder

const maxSamples = 6

type Recorder struct {
	Prop string

	mu          sync.Mutex
	evaluations int64
	labels      map[string]int64
	nontrivial  map[uint64]struct{}
	samples     []json.RawMessage
	known       map[string]int64
	knownWhat   map[string]string
	excluded    map[string]int64
	extra       map[string]int64
	exhaustive  bool
}

func New(prop string) *Recorder {
	return &Recorder{Prop: prop, labels: map[string]int64{}, nontrivial: map[uint64]struct{}{},
		known: map[string]int64{}, knownWhat: map[string]string{}, excluded: map[string]int64{}, extra: map[string]int64{}}
}

func (r *Recorder) Eval() { r.mu.Lock(); r.evaluations++; r.mu.Unlock() }

func (r *Recorder) EvalN(n int) { r.mu.Lock(); r.evaluations += int64(n); r.mu.Unlock() }

func (r *Recorder) Label(l string) { r.mu.Lock(); r.labels[l]++; r.mu.Unlock() }

func (r *Recorder) LabelIf(c bool, l string) {
	if c {
		r.Label(l)
	}
}

func (r *Recorder) Count(k string, n int) { r.mu.Lock(); r.extra[k] += int64(n); r.mu.Unlock() }

// Max keeps the maximum of v under key k (merged by max per shard, then summed by the driver only if equal keys: use distinct keys for maxima).
func (r *Recorder) Max(k string, v int64) {
	r.mu.Lock()
	if v > r.extra[k] {
		r.extra[k] = v
	}
	r.mu.Unlock()
}

func (r *Recorder) Excluded(what string) { r.mu.Lock(); r.excluded[what]++; r.mu.Unlock() }

func (r *Recorder) SetExhaustive(b bool) { r.mu.Lock(); r.exhaustive = b; r.mu.Unlock() }

// Hash64 is the hash used for distinctness of non-trivial cases.
func Hash64(b []byte) uint64 {
	h := fnv.New64a()
	h.Write(b)
	return h.Sum64()
}

// NonTrivial records one case that is non-trivial by the property's rule;
// canon is a canonical encoding of the case (distinctness is by its hash).
// The first few are kept as samples.
func (r *Recorder) NonTrivial(canon []byte, sample any) {
	h := Hash64(canon)
	r.mu.Lock()
	defer r.mu.Unlock()
	if _, dup := r.nontrivial[h]; dup {
		return
	}
	r.nontrivial[h] = struct{}{}
	if len(r.samples) < maxSamples && sample != nil {
		if b, err := json.Marshal(sample); err == nil {
			if len(b) > 6000 {
				b, _ = json.Marshal(map[string]any{"truncated": string(b[:6000])})
			}
			r.samples = append(r.samples, b)
		}
	}
}

// Sample records a sample regardless of triviality (used by sweeps).
func (r *Recorder) Sample(sample any) {
	r.mu.Lock()
	defer r.mu.Unlock()
	if len(r.samples) < maxSamples {
		if b, err := json.Marshal(sample); err == nil {
			r.samples = append(r.samples, b)
		}
	}
}

func (r *Recorder) KnownHit(id, what string) {
	r.mu.Lock()
	r.known[id]++
	if _, ok := r.knownWhat[id]; !ok {
		r.knownWhat[id] = what
	}
	r.mu.Unlock()
}

func outDir() string {
	d := os.Getenv("VERIF_OUT")
	if d == "" {
		d = filepath.Join(os.TempDir(), "verif-out")
	}
	_ = os.MkdirAll(d, 0o755)
	return d
}

func shard() string {
	s := os.Getenv("VERIF_SHARD")
	if s == "" {
		s = "x"
	}
	return s
}

type statsFile struct {
	Prop        string            `json:"property"`
	Shard       string            `json:"shard"`
	Phase       string            `json:"phase"`
	Evaluations int64             `json:"evaluations"`
	Labels      map[string]int64  `json:"labels"`
	NonTrivial  []uint64          `json:"nontrivial"`
	Samples     []json.RawMessage `json:"samples"`
	Known       map[string]int64  `json:"known"`
	KnownWhat   map[string]string `json:"known_what"`
	Excluded    map[string]int64  `json:"excluded"`
	Extra       map[string]int64  `json:"extra"`
	Exhaustive  bool              `json:"exhaustive"`
}

// Flush writes the statistics of this process for the driver to merge.
func (r *Recorder) Flush(phase string) {
	r.mu.Lock()
	defer r.mu.Unlock()
	sf := statsFile{Prop: r.Prop, Shard: shard(), Phase: phase, Evaluations: r.evaluations, Labels: r.labels,
		Samples: r.samples, Known: r.known, KnownWhat: r.knownWhat, Excluded: r.excluded, Extra: r.extra, Exhaustive: r.exhaustive}
	for h := range r.nontrivial {
		sf.NonTrivial = append(sf.NonTrivial, h)
	}
	sort.Slice(sf.NonTrivial, func(i, j int) bool { return sf.NonTrivial[i] < sf.NonTrivial[j] })
	b, _ := json.Marshal(sf)
	name := fmt.Sprintf("stats_%s_%s_%s_%d.json", r.Prop, phase, shard(), os.Getpid())
	_ = os.WriteFile(filepath.Join(outDir(), name), b, 0o644)
}

// ReplayFile is the on-disk format of a failing (or regression) case.
type ReplayFile struct {
	Property string          `json:"property"`
	Variant  string          `json:"variant,omitempty"` // which sub-check of the property the case belongs to
	Case     json.RawMessage `json:"case"`
	Failure  *Failure        `json:"failure,omitempty"`
	Note     string          `json:"note,omitempty"`
}

// RecordFailure writes the failing case; during shrinking it is overwritten, so
// the file left at the end holds the minimal case rapid re-runs last.
var failSeq int

// NextFailure makes the next RecordFailure write a new file instead of
// overwriting (replay tier: one file per failing replay).
func NextFailure() { failSeq++ }

func RecordFailure(prop, variant string, c any, f *Failure) string {
	cb, err := json.Marshal(c)
	if err != nil {
		cb, _ = json.Marshal(fmt.Sprintf("unencodable case: %v", err))
	}
	rf := ReplayFile{Property: prop, Variant: variant, Case: cb, Failure: f}
	b, _ := json.MarshalIndent(rf, "", " ")
	p := filepath.Join(outDir(), fmt.Sprintf("fail_%s_%s_%d_%d.json", prop, shard(), os.Getpid(), failSeq))
	_ = os.WriteFile(p, b, 0o644)
	return p
}

// InFlight writes the case about to be executed, for checks whose failure mode
// is the death of the process (race detector, fatal errors).
func InFlight(prop, variant string, c any) {
	cb, _ := json.Marshal(c)
	rf := ReplayFile{Property: prop, Variant: variant, Case: cb, Note: "in flight when the process died"}
	b, _ := json.Marshal(rf)
	p := filepath.Join(outDir(), fmt.Sprintf("inflight_%s_%s_%d.json", prop, shard(), os.Getpid()))
	_ = os.WriteFile(p, b, 0o644)
}

func ClearInFlight(prop string) {
	_ = os.Remove(filepath.Join(outDir(), fmt.Sprintf("inflight_%s_%s_%d.json", prop, shard(), os.Getpid())))
}

// CaseID is a short stable name for a case.
func CaseID(b []byte) string {
	s := sha256.Sum256(b)
	return hex.EncodeToString(s[:6])
}

// U64 decodes helper for mixing seeds.
func U64(b []byte) uint64 { return binary.LittleEndian.Uint64(b) }
