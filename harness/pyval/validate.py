#!/usr/bin/env python3-vt
"""Independent validator for C19: Draft-4 validation of Swagger 2.0 documents against
the schema shipped with go-openapi/spec. Line protocol: one JSON document per input
line, one JSON answer per output line: {"valid": bool, "errors": [{"path": "/a/b", "message": "..."}]}."""
import json
import sys
import warnings

warnings.filterwarnings("ignore")

import jsonschema

repo = sys.argv[1] if len(sys.argv) > 1 else "/repo"
with open(repo + "/schemas/v2/schema.json") as f:
    swagger = json.load(f)
with open(repo + "/schemas/jsonschema-draft-04.json") as f:
    draft4 = json.load(f)
store = {"http://json-schema.org/draft-04/schema": draft4, "http://json-schema.org/draft-04/schema#": draft4,
         "http://swagger.io/v2/schema.json": swagger, "http://swagger.io/v2/schema.json#": swagger}
resolver = jsonschema.RefResolver(base_uri="http://swagger.io/v2/schema.json", referrer=swagger, store=store)
validator = jsonschema.Draft4Validator(swagger, resolver=resolver)


def esc(tok):
    return str(tok).replace("~", "~0").replace("/", "~1")


def report(err, out):
    # one entry per top-level error: the most relevant leaf among the alternatives of oneOf/anyOf
    best = jsonschema.exceptions.best_match(iter([err]))
    out.append({"path": "".join("/" + esc(t) for t in best.absolute_path), "message": best.message[:300], "validator": best.validator,
                "top_path": "".join("/" + esc(t) for t in err.absolute_path), "top_validator": err.validator})


for line in sys.stdin:
    line = line.strip()
    if not line:
        continue
    try:
        doc = json.loads(line)
        errors = []
        for e in validator.iter_errors(doc):
            report(e, errors)
            if len(errors) > 40:
                break
        ans = {"valid": not errors, "errors": errors}
    except Exception as ex:  # noqa: BLE001
        ans = {"valid": False, "errors": [{"path": "", "message": "validator failure: %r" % (ex,), "validator": "harness"}]}
    sys.stdout.write(json.dumps(ans) + "\n")
    sys.stdout.flush()
