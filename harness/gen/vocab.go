package gen

// Vocabulary-driven generator of Swagger 2.0 / JSON-Schema draft-4 JSON values.
//
// The table below is written by hand from schemas/v2/schema.json and
// schemas/jsonschema-draft-04.json (NOT derived from the Go struct tags:
// otherwise a mis-tagged field would be invisible). props/vocab_selfcheck_test.go
// asserts that the keyword set per kind equals the `properties` of the
// corresponding meta-schema definitions.

import (
	"encoding/json"
	"fmt"
	"sort"
	"strings"

	"pgregory.net/rapid"
)

// Kinds that can be decode targets (C01) plus helper kinds.
var Kinds = []string{"swagger", "schema", "parameter", "items", "header", "response", "responses", "operation", "pathItem", "paths", "securityScheme", "info", "contact", "license", "tag"}

// VocabOpts are the knobs of the vocabulary generator.
type VocabOpts struct {
	MaxDepth        int  // nesting depth of sub-kinds (default 3)
	Hostile         bool // hostile member names (quotes, backslashes, control chars, regex syntax ...)
	OptPct          int  // probability of each optional member (default 30)
	EmptyListPct    int  // probability that a typed list (consumes, tags, required, parameters, allOf, tuple items, ...) is drawn empty - outside C01's normal form; 0 = never
	EmptyReqPct     int  // probability that a required string member is drawn empty (K5); 0 = never
	NoZeroValid     bool // do not draw numeric validations equal to 0 (gob K3 steering)
	NoEmptyInFree   bool // no empty arrays inside free-form payloads (gob K4 steering)
	Refs            bool // allow {"$ref": ...} forms for parameter / response / path item / schema
	NoExtensions    bool
	ScalarItemsPct  int  // (C07 only) not used by the normal form
	RootRefs        bool // also draw the root reference ("#", "") as a $ref value (its JSON form is canonical: {"$ref":""})
	EmptySecurity   bool // allow `security: []` and empty requirement objects (C14; outside C01's normal form)
	Valid           bool // (C19) stay inside what schemas/v2/schema.json accepts: restricted schema vocabulary, value constraints, well-founded local $refs
	Budget          int  // maximum number of optional members in one instance (default 40)
	NonNormalXOrder bool // (C06) x-order extensions on properties: ints, numeric strings, ties, floats, junk
}

func (o VocabOpts) withDefaults() VocabOpts {
	if o.MaxDepth == 0 {
		o.MaxDepth = 3
	}
	if o.OptPct == 0 {
		o.OptPct = 30
	}
	if o.Budget == 0 {
		o.Budget = 40
	}
	return o
}

// V is a generation context.
type V struct {
	T *rapid.T
	O VocabOpts
	// Flags describing what was produced (for labels / non-triviality)
	lastName    string
	EmptyList   bool // an empty typed list was drawn
	HostileName bool
	ZeroValid   bool
	Extension   bool
	FreeNull    bool
	EmptyReq    []string // pointers of required strings drawn empty
	Keywords    int
	MaxDepth    int
	budget      int // remaining optional members (bounds the size of an instance)
	// (Valid mode) names of the referable elements of the document being generated
	DefNames, ParamNames, RespNames, SecNames []string
}

func NewV(t *rapid.T, o VocabOpts) *V {
	v := &V{T: t, O: o.withDefaults()}
	v.budget = v.O.Budget
	return v
}

type field struct {
	name  string
	req   bool
	gen   func(v *V, d int) any
	shape string // what the value is: see shapeOf
}

func f(name string, gen func(v *V, d int) any) field  { return field{name, false, gen, shapeOf(name)} }
func rq(name string, gen func(v *V, d int) any) field { return field{name, true, gen, shapeOf(name)} }

// shapeOf gives the structural role of a keyword's value (the same keyword has
// the same role in every kind, except `items`, `schema`, `responses`, `parameters`, `type` which depend on the holder and are resolved in ChildShape).
func shapeOf(name string) string {
	switch name {
	case "default", "example":
		return "free"
	case "enum":
		return "freelist"
	case "examples":
		return "mapfree"
	case "definitions", "properties", "patternProperties":
		return "map:schema"
	case "dependencies":
		return "deps"
	case "allOf", "anyOf", "oneOf":
		return "list:schema"
	case "not", "schema":
		return "kind:schema"
	case "additionalProperties", "additionalItems":
		return "sob"
	case "xml":
		return "kind:xml"
	case "externalDocs":
		return "kind:externalDocs"
	case "contact":
		return "kind:contact"
	case "license":
		return "kind:license"
	case "info":
		return "kind:info"
	case "paths":
		return "kind:paths"
	case "headers":
		return "map:header"
	case "get", "put", "post", "delete", "options", "head", "patch":
		return "kind:operation"
	case "securityDefinitions":
		return "map:securityScheme"
	case "tags":
		return "tags" // list of tag objects in swagger, list of strings in operation
	case "security":
		return "security"
	case "scopes":
		return "scopes"
	}
	return "scalar"
}

// ChildShape resolves the holder-dependent keywords.
func ChildShape(holder, keyword string) string {
	switch keyword {
	case "items":
		if holder == "schema" {
			return "soa"
		}
		return "kind:items"
	case "responses":
		if holder == "swagger" {
			return "map:response"
		}
		return "kind:responses"
	case "parameters":
		if holder == "swagger" {
			return "map:parameter"
		}
		return "list:parameter"
	case "tags":
		if holder == "swagger" {
			return "list:tag"
		}
		return "scalar"
	case "definitions":
		return "map:schema"
	}
	return shapeOf(keyword)
}

// ---------------------------------------------------------------------------
// leaf generators

var plainNames = []string{"a", "b", "name", "id", "petId", "x", "n1", "Z", "tag_1", "very-long-name.with.dots", "petID", "PETID", "A", "X", "N1"} // (several equal up to case)
var hostileNames = []string{"a\"b", "a\\b", "a\\nb", "a\nb", "tab\there", "\u0001", "a/b", "a~b", "~0", "~1", "a%b", "%41", "a#b", "a?b", "a b", "{x}", "é", "日本", "😀", "^a\\d+$", "[a-z]+", "a|b", "(x)*", "", "default", "200", "x-foo", "$ref", "properties", "type", "__proto__", " "}

// Name draws a member name for a map-valued container.
func (v *V) Name(label string) string {
	n := v.name(label)
	v.lastName = n
	return n
}

// caseVariant returns a name that differs from s by letter case only (s itself when it has no letters).
func nameCaseVariant(s string, which int) string {
	switch up, lo := strings.ToUpper(s), strings.ToLower(s); {
	case which == 0 && up != s:
		return up
	case lo != s:
		return lo
	case up != s:
		// all lower case: capitalise the last letter that has an upper case
		r := []rune(s)
		for i := len(r) - 1; i >= 0; i-- {
			if u := []rune(strings.ToUpper(string(r[i]))); len(u) == 1 && u[0] != r[i] {
				r[i] = u[0]
				return string(r)
			}
		}
	}
	return s
}

func (v *V) name(label string) string {
	if v.lastName != "" && Pct(v.T, label+"?casevariant", 10) {
		// a name equal to the previous one up to letter case: siblings that collide under case folding
		return nameCaseVariant(v.lastName, Uniform(v.T, label+"?which", 2))
	}
	if v.O.Hostile && Pct(v.T, label+"?hostile", 40) {
		v.HostileName = true
		return hostileNames[Uniform(v.T, label, len(hostileNames))]
	}
	return plainNames[Uniform(v.T, label, len(plainNames))]
}

var strPool = []string{"s", "text", "a b", "ünï", "with \"quotes\"", "back\\slash", "line\nbreak", "<&>", "0", "null", "true", "日本語", "😀", " lead", "trail ", "\t"}

func str(v *V, d int) any { return strPool[Uniform(v.T, "str", len(strPool))] }

func enumOf(vals ...string) func(v *V, d int) any {
	return func(v *V, d int) any { return vals[Uniform(v.T, "enum", len(vals))] }
}

func lit(x any) func(v *V, d int) any { return func(v *V, d int) any { return x } }

func bTrue(v *V, d int) any { return true }

var numPool = []float64{1, -1, 2, 10, 0.5, -2.75, 1.25, 100, 65536, 1e6, 4294967296, -0.125, 9007199254740991}

func num(v *V, d int) any {
	if !v.O.NoZeroValid && Pct(v.T, "zero", 35) {
		v.ZeroValid = true
		return 0.0
	}
	return numPool[Uniform(v.T, "num", len(numPool))]
}

var natPool = []float64{1, 2, 3, 10, 255, 65535, 2147483648, 1099511627776}

func nat(v *V, d int) any {
	if !v.O.NoZeroValid && Pct(v.T, "zero", 35) {
		v.ZeroValid = true
		return 0.0
	}
	return natPool[Uniform(v.T, "nat", len(natPool))]
}

func strList(v *V, d int) any {
	n := 1 + Uniform(v.T, "nstr", 3)
	out := make([]any, n)
	for i := range out {
		out[i] = str(v, d)
	}
	return out
}

func uniqueStrList(pool []string) func(v *V, d int) any {
	return func(v *V, d int) any {
		if v.O.EmptyListPct > 0 && Pct(v.T, "emptylist", v.O.EmptyListPct) {
			v.EmptyList = true
			return []any{}
		}
		n := 1 + Uniform(v.T, "nuniq", len(pool))
		start := Uniform(v.T, "uniqstart", len(pool))
		out := make([]any, 0, n)
		for i := 0; i < n; i++ {
			out = append(out, pool[(start+i)%len(pool)])
		}
		return out
	}
}

var mimePool = []string{"application/json", "text/plain", "application/xml", "application/vnd.api+json", "image/png", "multipart/form-data"}

// Free draws an arbitrary JSON value (free-form payload).
func (v *V) Free(d int) any {
	k := Uniform(v.T, "free", 12)
	if d >= 3 && k >= 8 {
		k = k % 8
	}
	switch k {
	case 0:
		return str(v, d)
	case 1:
		return numPool[Uniform(v.T, "fnum", len(numPool))]
	case 2:
		return 0.0
	case 3:
		return false
	case 4:
		return true
	case 5:
		if d == 0 {
			return "top-level-not-null"
		}
		v.FreeNull = true
		return nil
	case 6:
		if d == 0 || v.O.NoEmptyInFree {
			return "e"
		}
		return ""
	case 7:
		if d == 0 || v.O.NoEmptyInFree {
			return 7.0
		}
		if Pct(v.T, "emptyobj", 50) {
			return map[string]any{}
		}
		return []any{}
	case 8, 9:
		n := 1 + Uniform(v.T, "farr", 3)
		out := make([]any, n)
		for i := range out {
			out[i] = v.Free(d + 1)
		}
		return out
	default:
		n := 1 + Uniform(v.T, "fobj", 3)
		out := map[string]any{}
		for i := 0; i < n; i++ {
			out[v.Name("freekey")] = v.Free(d + 1)
		}
		return out
	}
}

func free(v *V, d int) any { return v.Free(0) }

func freeList(v *V, d int) any {
	n := 1 + Uniform(v.T, "nenum", 3)
	out := make([]any, n)
	for i := range out {
		out[i] = v.Free(1)
	}
	return out
}

func mapOf(elem func(v *V, d int) any, nameOf func(v *V) string) func(v *V, d int) any {
	return func(v *V, d int) any {
		n := 1 + Uniform(v.T, "nmap", 3)
		out := map[string]any{}
		for i := 0; i < n; i++ {
			out[nameOf(v)] = elem(v, d+1)
		}
		return out
	}
}

func listOf(elem func(v *V, d int) any) func(v *V, d int) any {
	return func(v *V, d int) any {
		if v.O.EmptyListPct > 0 && Pct(v.T, "emptylist", v.O.EmptyListPct) {
			v.EmptyList = true
			return []any{}
		}
		n := 1 + Uniform(v.T, "nlist", 2)
		out := make([]any, n)
		for i := range out {
			out[i] = elem(v, d+1)
		}
		return out
	}
}

func anyName(v *V) string { return v.Name("member") }

var patternNames = []string{"^a", "^A", "b$", "^a\\d+$", "[a-z]+", "^x-", ".*", "^(foo|bar)$", "a\\.b", "^\\w+\\s?$", "\"", "^[\\]]$"}

func patternName(v *V) string {
	if v.O.Hostile {
		v.HostileName = v.HostileName || true
		return patternNames[Uniform(v.T, "pattern", len(patternNames))]
	}
	return []string{"^a", "b$", "c"}[Uniform(v.T, "pattern", 3)]
}

func kind(name string) func(v *V, d int) any {
	return func(v *V, d int) any { return v.instance(name, d, "") }
}

// canonical reference strings (fixed points of NewRef(s).String(); canonicalisation is C13's business)
var refPool = []string{"#/definitions/a", "#/definitions/b~1c", "other.json#/definitions/x", "http://example.com/s.json#/definitions/y", "file:///w/s.json", "#/parameters/p", "#/responses/r", "sub/dir/doc.json"}
var idPoolV = []string{"http://example.com/schemas/a.json", "urn:x", "a.json", "http://example.com/s#frag"}
var schemaURLPool = []string{"http://json-schema.org/draft-04/schema", "http://swagger.io/v2/schema.json", "http://example.com/meta#frag"}

func refStr(v *V, d int) any {
	if v.O.RootRefs && Pct(v.T, "rootref", 20) {
		return []string{"#", ""}[Uniform(v.T, "rootrefform", 2)]
	}
	if v.O.Hostile && Pct(v.T, "hostileref", 15) {
		return hostileRefPool[Uniform(v.T, "href", len(hostileRefPool))]
	}
	return refPool[Uniform(v.T, "ref", len(refPool))]
}

// hostileRefPool: canonical references whose text needs JSON string escaping (a URL keeps quotes and
// backslashes of its query and opaque part as they are).
var hostileRefPool = []string{`other.json?q="a"#/definitions/x`, `other.json?p=a\b`, `urn:a:b\u0041`, `o.json?x=\n&y=\t`, `http://example.com/s.json?say="hi"`, `urn:quote:"q"`}
var hostileSchemaURLPool = []string{`http://example.com/meta?a="b"`, `http://example.com/m?p=a\b`, `urn:m:\u0041"x"`}

func fragEscape(name string) string {
	name = strings.ReplaceAll(strings.ReplaceAll(name, "~", "~0"), "/", "~1")
	var sb strings.Builder
	for _, c := range []byte(name) {
		switch {
		case c == '%' || c == ' ' || c == '{' || c == '}' || c == '#' || c == '"' || c == '\\' || c == '^' || c == '`' || c == '|' || c == '<' || c == '>' || c == '?' || c < 0x20 || c >= 0x7f:
			fmt.Fprintf(&sb, "%%%02X", c)
		default:
			sb.WriteByte(c)
		}
	}
	return sb.String()
}

// ---------------------------------------------------------------------------
// the vocabulary

var simpleTypes = []string{"string", "number", "integer", "boolean", "array", "object", "null"}

func typeValue(v *V, d int) any {
	if Pct(v.T, "typearray", 25) {
		n := 2 + Uniform(v.T, "ntypes", 2)
		start := Uniform(v.T, "typestart", len(simpleTypes))
		out := make([]any, n)
		for i := range out {
			out[i] = simpleTypes[(start+i)%len(simpleTypes)]
		}
		return out
	}
	return simpleTypes[Uniform(v.T, "type", len(simpleTypes))]
}

func schemaOrBool(v *V, d int) any {
	switch Uniform(v.T, "sob", 4) {
	case 0:
		return true
	case 1:
		return false
	}
	return v.instance("schema", d+1, "")
}

func schemaOrArray(v *V, d int) any {
	if Pct(v.T, "tuple", 35) {
		return listOf(kind("schema"))(v, d)
	}
	return v.instance("schema", d+1, "")
}

func dependency(v *V, d int) any {
	if Pct(v.T, "depstrings", 40) {
		return strList(v, d)
	}
	return v.instance("schema", d+1, "")
}

var commonValidations = []field{
	f("maximum", num), f("exclusiveMaximum", bTrue), f("minimum", num), f("exclusiveMinimum", bTrue),
	f("maxLength", nat), f("minLength", nat), f("pattern", str), f("maxItems", nat), f("minItems", nat),
	f("uniqueItems", bTrue), f("enum", freeList), f("multipleOf", num),
}

var primitiveTypes = []string{"string", "number", "integer", "boolean", "array"}
var collectionFormats = []string{"csv", "ssv", "tsv", "pipes"}

func simpleSchemaFields() []field {
	out := []field{f("format", str), f("items", kind("items")), f("collectionFormat", enumOf(collectionFormats...)), f("default", free)}
	return append(out, commonValidations...)
}

// fieldsOf returns the vocabulary of a kind. flavour selects among the oneOf
// alternatives of the meta-schema (parameter locations, security flavours).
func fieldsOf(k, flavour string) []field {
	switch k {
	case "schema":
		out := []field{
			f("id", func(v *V, d int) any { return idPoolV[Uniform(v.T, "id", len(idPoolV))] }),
			f("$schema", func(v *V, d int) any {
				if v.O.Hostile && Pct(v.T, "hostile$schema", 15) {
					return hostileSchemaURLPool[Uniform(v.T, "h$schema", len(hostileSchemaURLPool))]
				}
				return schemaURLPool[Uniform(v.T, "$schema", len(schemaURLPool))]
			}),
			f("$ref", refStr),
			f("title", str), f("description", str), f("default", free), f("format", str),
			f("maxProperties", nat), f("minProperties", nat), f("required", strList),
			f("type", typeValue), f("items", schemaOrArray), f("additionalItems", schemaOrBool),
			f("additionalProperties", schemaOrBool),
			f("definitions", mapOf(kind("schema"), anyName)), f("properties", mapOf(kind("schema"), anyName)),
			f("patternProperties", mapOf(kind("schema"), patternName)), f("dependencies", mapOf(dependency, anyName)),
			f("allOf", listOf(kind("schema"))), f("anyOf", listOf(kind("schema"))), f("oneOf", listOf(kind("schema"))), f("not", kind("schema")),
			f("discriminator", str), f("readOnly", bTrue), f("xml", kind("xml")), f("externalDocs", kind("externalDocs")), f("example", free),
		}
		return append(out, commonValidations...)
	case "xml":
		return []field{f("name", str), f("namespace", str), f("prefix", str), f("attribute", bTrue), f("wrapped", bTrue)}
	case "externalDocs":
		return []field{f("description", str), rq("url", str)}
	case "info":
		return []field{rq("title", str), rq("version", str), f("description", str), f("termsOfService", str), f("contact", kind("contact")), f("license", kind("license"))}
	case "contact":
		return []field{f("name", str), f("url", str), f("email", str)}
	case "license":
		return []field{rq("name", str), f("url", str)}
	case "tag":
		return []field{rq("name", str), f("description", str), f("externalDocs", kind("externalDocs"))}
	case "items":
		return append([]field{f("type", enumOf(primitiveTypes...))}, simpleSchemaFields()...)
	case "header":
		return append([]field{rq("type", enumOf(primitiveTypes...)), f("description", str)}, simpleSchemaFields()...)
	case "parameter":
		switch flavour {
		case "ref":
			return []field{rq("$ref", refStr)}
		case "body":
			return []field{rq("name", str), rq("in", lit("body")), rq("schema", kind("schema")), f("description", str), f("required", bTrue)}
		case "path":
			return append([]field{rq("name", str), rq("in", lit("path")), rq("type", enumOf(primitiveTypes...)), rq("required", bTrue), f("description", str)}, simpleSchemaFields()...)
		case "header":
			return append([]field{rq("name", str), rq("in", lit("header")), rq("type", enumOf(primitiveTypes...)), f("required", bTrue), f("description", str)}, simpleSchemaFields()...)
		default: // query, formData
			types := append([]string{}, primitiveTypes...)
			if flavour == "formData" {
				types = append(types, "file")
			}
			return append([]field{rq("name", str), rq("in", lit(flavour)), rq("type", enumOf(types...)), f("required", bTrue), f("description", str), f("allowEmptyValue", bTrue)}, simpleSchemaFields()...)
		}
	case "response":
		if flavour == "ref" {
			return []field{rq("$ref", refStr)}
		}
		return []field{rq("description", str), f("schema", kind("schema")), f("headers", mapOf(kind("header"), anyName)),
			f("examples", mapOf(free, func(v *V) string { return mimePool[Uniform(v.T, "mime", len(mimePool))] }))}
	case "operation":
		return []field{rq("responses", kind("responses")), f("tags", strList), f("summary", str), f("description", str), f("externalDocs", kind("externalDocs")),
			f("operationId", str), f("produces", uniqueStrList(mimePool)), f("consumes", uniqueStrList(mimePool)), f("parameters", listOf(kind("parameter"))),
			f("schemes", uniqueStrList([]string{"http", "https", "ws", "wss"})), f("deprecated", bTrue), f("security", security)}
	case "pathItem":
		out := []field{f("$ref", refStr), f("parameters", listOf(kind("parameter")))}
		for _, op := range []string{"get", "put", "post", "delete", "options", "head", "patch"} {
			out = append(out, f(op, kind("operation")))
		}
		return out
	case "securityScheme":
		switch flavour {
		case "basic":
			return []field{rq("type", lit("basic")), f("description", str)}
		case "apiKey":
			return []field{rq("type", lit("apiKey")), rq("name", str), rq("in", enumOf("header", "query")), f("description", str)}
		case "implicit":
			return []field{rq("type", lit("oauth2")), rq("flow", lit("implicit")), rq("authorizationUrl", str), f("scopes", scopes), f("description", str)}
		case "password", "application":
			return []field{rq("type", lit("oauth2")), rq("flow", lit(flavour)), rq("tokenUrl", str), f("scopes", scopes), f("description", str)}
		default:
			return []field{rq("type", lit("oauth2")), rq("flow", lit("accessCode")), rq("authorizationUrl", str), rq("tokenUrl", str), f("scopes", scopes), f("description", str)}
		}
	case "swagger":
		return []field{rq("swagger", lit("2.0")), rq("info", kind("info")), rq("paths", kind("paths")),
			f("host", str), f("basePath", str), f("schemes", uniqueStrList([]string{"http", "https", "ws", "wss"})),
			f("consumes", uniqueStrList(mimePool)), f("produces", uniqueStrList(mimePool)),
			f("definitions", mapOf(kind("schema"), anyName)), f("parameters", mapOf(kind("parameter"), anyName)), f("responses", mapOf(kind("response"), anyName)),
			f("security", security), f("securityDefinitions", mapOf(kind("securityScheme"), anyName)), f("tags", listOf(kind("tag"))), f("externalDocs", kind("externalDocs"))}
	}
	panic("unknown kind " + k)
}

// KeywordsOf lists every keyword the table knows for a kind (all flavours).
func KeywordsOf(k string) []string {
	set := map[string]bool{}
	for _, fl := range FlavoursOf(k) {
		for _, fd := range fieldsOf(k, fl) {
			set[fd.name] = true
		}
	}
	out := make([]string, 0, len(set))
	for n := range set {
		out = append(out, n)
	}
	sort.Strings(out)
	return out
}

func FlavoursOf(k string) []string {
	switch k {
	case "parameter":
		return []string{"body", "query", "formData", "path", "header", "ref"}
	case "response":
		return []string{"", "ref"}
	case "securityScheme":
		return []string{"basic", "apiKey", "implicit", "password", "application", "accessCode"}
	}
	return []string{""}
}

// HasExtensions: kinds whose meta-schema allows ^x- AND that C01 lists (xml
// and externalDocs allow ^x- in the meta-schema but are not listed kinds: the
// model has no extension slot there, so none are generated).
func HasExtensions(k string) bool { return k != "xml" && k != "externalDocs" }

func scopes(v *V, d int) any { return mapOf(str, anyName)(v, d) }

func security(v *V, d int) any {
	n := 1 + Uniform(v.T, "nsec", 2)
	if v.O.EmptySecurity && Pct(v.T, "emptysecurity", 25) {
		return []any{}
	}
	out := make([]any, n)
	for i := range out {
		req := map[string]any{}
		m := 1 + Uniform(v.T, "nreq", 2)
		if v.O.EmptySecurity && Pct(v.T, "emptyreq", 25) {
			m = 0
		}
		for j := 0; j < m; j++ {
			var sc []any
			for s, c := 0, Uniform(v.T, "nscopes", 3); s < c; s++ {
				sc = append(sc, str(v, d))
			}
			if sc == nil {
				sc = []any{}
			}
			req[v.Name("secname")] = sc
		}
		out[i] = req
	}
	return out
}

var unknownKeywords = []string{"foo", "unknownKeyword", "x", "xtra", "schemaProps", "extraProps", "extensions", "vendorExtensible", "swaggerSchemaProps", "$comment", "const", "nullable2", "examples", "if", "contentMediaType", "$id", "name", "in"}

var extNames = []string{"x-a", "x-foo", "x-", "x-nullable", "x-order", "x-go-name", "x-é", "x-a\"b", "x-with space", "x-X", "X-Upper", "X-mixed-Case"}

// caseCollides: does name differ from one of the keywords only by letter case?
func caseCollides(name string, keywords []string) bool {
	ln := strings.ToLower(name)
	for _, k := range keywords {
		if strings.ToLower(k) == ln {
			return true
		}
	}
	return false
}

// Instance draws a value of the given kind in normal form.
func (v *V) Instance(k string) any { return v.instance(k, 0, "") }

// InstanceOnly draws a minimal instance of kind k (flavour fl) carrying, besides
// the required members, only keyword kw.
func (v *V) InstanceOnly(k, fl, kw string) any { return v.instanceFl(k, fl, 0, kw) }

func (v *V) instance(k string, d int, only string) any {
	fl := ""
	fls := FlavoursOf(k)
	if len(fls) > 1 {
		if !v.O.Refs {
			var nf []string
			for _, x := range fls {
				if x != "ref" {
					nf = append(nf, x)
				}
			}
			fls = nf
		}
		fl = fls[Uniform(v.T, k+"flavour", len(fls))]
	}
	return v.instanceFl(k, fl, d, only)
}

func (v *V) instanceFl(k, fl string, d int, only string) any {
	if d > v.MaxDepth {
		v.MaxDepth = d
	}
	switch k {
	case "paths":
		out := map[string]any{}
		if only == "" || only == "/" {
			for i, c := 0, Uniform(v.T, "npaths", 3); i < c || (only == "/" && i == 0); i++ {
				name := "/" + v.Name("path")
				if Pct(v.T, "oddpath", 12) {
					// path templates are opaque member names: nothing may tidy them up
					name = []string{"/pets/", "//pets", "/a/./b", "/a/../b", "/a//b/", "/{id}/", "/./", "/..", "/a/b/../../c"}[Uniform(v.T, "oddpathname", 9)]
				}
				out[name] = v.sub("pathItem", d)
			}
		}
		v.extensions(out, k, only)
		return out
	case "responses":
		out := map[string]any{}
		codes := []string{"default", "200", "201", "404", "500", "418", "600", "999", "100"} // (the Swagger schema admits any three digits)
		if !v.O.Valid {
			// any integer is kept as a status code by the typed form
			codes = append(codes, "99", "1000", "0", "-1", "2147483647")
		}
		if (only == "" || only == "/") && Pct(v.T, "minimal responses", 6) {
			// the smallest responses object there is: one response that holds nothing but its (required) description,
			// which may be empty
			out[codes[Uniform(v.T, "minimalcode", 3)]] = map[string]any{"description": []any{"", "", "d"}[Uniform(v.T, "minimaldesc", 3)]}
			return out
		}
		n := 1 + Uniform(v.T, "ncodes", 3)
		start := Uniform(v.T, "codestart", len(codes))
		for i := 0; i < n; i++ {
			out[codes[(start+i)%len(codes)]] = v.sub("response", d)
		}
		v.extensions(out, k, only)
		return out
	}
	fields := fieldsOf(k, fl)
	if v.O.Valid {
		fields = validFields(k, fields)
	}
	keywords := KeywordsOf(k)
	out := map[string]any{}
	deep := d >= v.O.MaxDepth
	pathItemRefOnly := false
	for _, fd := range fields {
		take := fd.req
		switch {
		case only != "":
			take = take || fd.name == only
		case fd.name == "$ref":
			take = take || (v.O.Refs && Pct(v.T, "has$ref", 12))
		case fd.name == "id" || fd.name == "$schema":
			take = take || Pct(v.T, "has"+fd.name, 8)
		default:
			take = take || Pct(v.T, "has:"+fd.name, v.O.OptPct)
		}
		if !take {
			continue
		}
		if !fd.req && only == "" {
			if v.budget <= 0 || (deep && isContainerKeyword(fd.name)) {
				continue
			}
			v.budget--
		}
		val := fd.gen(v, d)
		if fd.req && v.O.EmptyReqPct > 0 {
			if _, isStr := val.(string); isStr && fd.name != "in" && fd.name != "type" && fd.name != "swagger" && fd.name != "flow" && fd.name != "$ref" &&
				Pct(v.T, "emptyreq", v.O.EmptyReqPct) {
				val = ""
				v.EmptyReq = append(v.EmptyReq, k+"."+fd.name)
			}
		}
		out[fd.name] = val
		v.Keywords++
	}
	_ = pathItemRefOnly
	if v.O.Valid {
		v.repairValid(k, fl, out)
	}
	if k == "schema" && !v.O.Valid && (only == "" || only == "?unknown") && (only != "" || Pct(v.T, "unknownkw", 15)) {
		name := unknownKeywords[Uniform(v.T, "unknown", len(unknownKeywords))]
		if !caseCollides(name, keywords) {
			out[name] = v.Free(0)
			v.Keywords++
		}
	}
	if fl != "ref" {
		v.extensions(out, k, only)
	}
	return out
}

func isContainerKeyword(n string) bool {
	switch n {
	case "items", "additionalItems", "additionalProperties", "definitions", "properties", "patternProperties", "dependencies", "allOf", "anyOf", "oneOf", "not",
		"schema", "headers", "parameters", "get", "put", "post", "delete", "options", "head", "patch", "responses":
		return true
	}
	return false
}

func (v *V) sub(k string, d int) any { return v.instance(k, d+1, "") }

func (v *V) extensions(out map[string]any, k, only string) {
	if v.O.NoExtensions || !HasExtensions(k) {
		return
	}
	if only != "" && only != "x-" {
		return
	}
	if only == "" && !Pct(v.T, "hasext", 25) {
		return
	}
	n := 1 + Uniform(v.T, "next", 2)
	for i := 0; i < n; i++ {
		name := extNames[Uniform(v.T, "extname", len(extNames))]
		if !v.O.Hostile && strings.ContainsAny(name, "\" éX") {
			name = "x-plain"
		}
		if (v.O.Valid || k != "schema") && !strings.HasPrefix(name, "x-") {
			// the Swagger 2.0 schema admits lower-case x- only; the library reads an upper-case X- member as an
			// extension in schemas (kept under its spelling) and as an unknown member elsewhere, so the
			// upper-case spellings are drawn for schemas only
			name = "x-plain"
		}
		out[name] = v.Free(0)
		v.Extension = true
		v.Keywords++
	}
}

// SweepCase names one point of the deterministic single-keyword sweep.
type SweepCase struct {
	Kind    string
	Flavour string
	Keyword string
}

// Sweep lists every (kind, flavour, keyword) triple, plus "x-" for kinds with
// extensions and "?unknown" for schemas.
func Sweep() []SweepCase {
	var out []SweepCase
	all := append(append([]string{}, Kinds...), "xml", "externalDocs")
	for _, k := range all {
		if k == "paths" {
			out = append(out, SweepCase{k, "", "/"}, SweepCase{k, "", "x-"})
			continue
		}
		if k == "responses" {
			out = append(out, SweepCase{k, "", "x-"})
			continue
		}
		for _, fl := range FlavoursOf(k) {
			for _, fd := range fieldsOf(k, fl) {
				out = append(out, SweepCase{k, fl, fd.name})
			}
			if HasExtensions(k) && fl != "ref" {
				out = append(out, SweepCase{k, fl, "x-"})
			}
			if k == "schema" {
				out = append(out, SweepCase{k, fl, "?unknown"})
			}
		}
	}
	return out
}

func (s SweepCase) String() string { return fmt.Sprintf("%s/%s/%s", s.Kind, s.Flavour, s.Keyword) }

// ---------------------------------------------------------------------------
// typed walk of an instance

// WalkFn is called for every typed position of an instance: kind is the object
// kind at path ("" for positions inside a free-form payload, whose root is
// reported with kind "free").
type WalkFn func(path string, kind string, value any)

func escTok(s string) string {
	s = strings.ReplaceAll(s, "~", "~0")
	return strings.ReplaceAll(s, "/", "~1")
}

// WalkKinds visits the object kinds and free-form payload roots of an instance.
func WalkKinds(kind string, value any, path string, fn WalkFn) {
	fn(path, kind, value)
	m, ok := value.(map[string]any)
	if !ok {
		return
	}
	switch kind {
	case "free":
		return
	case "paths":
		for _, k := range sortedKeysAny(m) {
			if strings.HasPrefix(strings.ToLower(k), "x-") {
				fn(path+"/"+escTok(k), "free", m[k])
			} else {
				WalkKinds("pathItem", m[k], path+"/"+escTok(k), fn)
			}
		}
		return
	case "responses":
		for _, k := range sortedKeysAny(m) {
			if strings.HasPrefix(strings.ToLower(k), "x-") {
				fn(path+"/"+escTok(k), "free", m[k])
			} else {
				WalkKinds("response", m[k], path+"/"+escTok(k), fn)
			}
		}
		return
	}
	known := map[string]bool{}
	for _, k := range KeywordsOf(kind) {
		known[k] = true
	}
	for _, k := range sortedKeysAny(m) {
		p := path + "/" + escTok(k)
		val := m[k]
		if !known[k] {
			// vendor extension or unknown schema keyword: a free-form payload
			fn(p, "free", val)
			continue
		}
		sh := ChildShape(kind, k)
		switch {
		case sh == "free":
			fn(p, "free", val)
		case sh == "freelist":
			if arr, ok := val.([]any); ok {
				for i, e := range arr {
					fn(fmt.Sprintf("%s/%d", p, i), "free", e)
				}
			}
		case sh == "mapfree":
			if mm, ok := val.(map[string]any); ok {
				for _, n := range sortedKeysAny(mm) {
					fn(p+"/"+escTok(n), "free", mm[n])
				}
			}
		case strings.HasPrefix(sh, "kind:"):
			WalkKinds(sh[5:], val, p, fn)
		case strings.HasPrefix(sh, "list:"):
			if arr, ok := val.([]any); ok {
				for i, e := range arr {
					WalkKinds(sh[5:], e, fmt.Sprintf("%s/%d", p, i), fn)
				}
			}
		case strings.HasPrefix(sh, "map:"):
			if mm, ok := val.(map[string]any); ok {
				for _, n := range sortedKeysAny(mm) {
					WalkKinds(sh[4:], mm[n], p+"/"+escTok(n), fn)
				}
			}
		case sh == "sob":
			if _, isObj := val.(map[string]any); isObj {
				WalkKinds("schema", val, p, fn)
			}
		case sh == "soa":
			switch x := val.(type) {
			case map[string]any:
				WalkKinds("schema", x, p, fn)
			case []any:
				for i, e := range x {
					WalkKinds("schema", e, fmt.Sprintf("%s/%d", p, i), fn)
				}
			}
		case sh == "deps":
			if mm, ok := val.(map[string]any); ok {
				for _, n := range sortedKeysAny(mm) {
					if _, isObj := mm[n].(map[string]any); isObj {
						WalkKinds("schema", mm[n], p+"/"+escTok(n), fn)
					}
				}
			}
		}
	}
}

func sortedKeysAny(m map[string]any) []string {
	ks := make([]string, 0, len(m))
	for k := range m {
		ks = append(ks, k)
	}
	sort.Strings(ks)
	return ks
}

// PayloadRoots lists the pointers of the free-form payloads of an instance.
func PayloadRoots(kind string, value any) []string {
	var out []string
	WalkKinds(kind, value, "", func(path, k string, v any) {
		if k == "free" {
			out = append(out, path)
		}
	})
	return out
}

func mustMarshal(v any) []byte {
	b, err := json.Marshal(v)
	if err != nil {
		panic(err)
	}
	return b
}

// AllKeywords is the union of the keywords of all kinds.
func AllKeywords() map[string]bool {
	out := map[string]bool{}
	for _, k := range append(append([]string{}, Kinds...), "xml", "externalDocs") {
		if k == "paths" || k == "responses" {
			continue
		}
		for _, kw := range KeywordsOf(k) {
			out[kw] = true
		}
	}
	out["default"] = true
	return out
}

// CaseFoldCollision reports whether some member name anywhere in v differs from
// a keyword (of any kind - a sound over-approximation of "a keyword of the same
// object") by nothing but letter case.
func CaseFoldCollision(v any) bool {
	lower := map[string]string{}
	for k := range AllKeywords() {
		lower[strings.ToLower(k)] = k
	}
	found := false
	var walk func(n any)
	walk = func(n any) {
		if found {
			return
		}
		switch x := n.(type) {
		case map[string]any:
			for k, e := range x {
				name := strings.TrimPrefix(k, dupPrefix)
				if kw, ok := lower[strings.ToLower(name)]; ok && kw != name {
					if _, exact := AllKeywords()[name]; !exact {
						found = true
						return
					}
				}
				walk(e)
			}
		case []any:
			for _, e := range x {
				walk(e)
			}
		}
	}
	walk(v)
	return found
}
