package gen

import (
	"encoding/json"
	"fmt"
	"strconv"
)

// SmallGraph describes one member of the exhaustively enumerated family of
// small reference graphs (C03, C04): a digraph on N<=3 schema nodes, the
// keyword under which the `$ref`s are placed, the kind of element node 0 is
// entered from, whether the other nodes live in another document, and an `id`
// variant.
type SmallGraph struct {
	N         int    `json:"n"`
	Adj       int    `json:"adj"`       // bit i*N+j set <=> node i refers to node j
	Placement int    `json:"placement"` // index into SmallPlacements
	EntryKind int    `json:"entry"`     // 0 definition, 1 parameter schema, 2 response schema, 3 operation response schema in a path item
	OtherDoc  bool   `json:"other_doc"` // nodes >=1 live in sub/deep.json
	IDNode    int    `json:"id_node"`   // -1 none
	IDKind    string `json:"id_kind"`   // abs, relfile, fragment, reldir
}

var SmallPlacements = []string{"properties", "patternProperties", "definitions", "dependencies", "allOf", "anyOf", "oneOf", "not", "additionalProperties", "additionalItems", "items", "itemsTuple", "direct"}

var SmallIDKinds = []string{"abs", "relfile", "fragment", "reldir"}

var smallIDs = map[string]string{"abs": "http://ids.example/s1.json", "relfile": "other.json", "fragment": "#anchor", "reldir": "sub/"}

const smallDeep = "file:///w/a/sub/deep.json"

// node0Pointer is where node 0 sits in the root document.
func (s SmallGraph) Node0Pointer() string {
	switch s.EntryKind {
	case 1:
		return "/parameters/p0/schema"
	case 2:
		return "/responses/r0/schema"
	case 3:
		return "/paths/~1x/get/responses/200/schema"
	}
	return "/definitions/n0"
}

// ElemPointer is the pointer of the element (definition, parameter, response) node 0 belongs to.
func (s SmallGraph) ElemPointer() string {
	switch s.EntryKind {
	case 1:
		return "/parameters/p0"
	case 2:
		return "/responses/r0"
	case 3:
		return "/paths/~1x"
	}
	return "/definitions/n0"
}

func (s SmallGraph) inOther(i int) bool { return s.OtherDoc && i > 0 }

func (s SmallGraph) ref(from, to int) string {
	ptr := "/definitions/n" + strconv.Itoa(to)
	if to == 0 {
		ptr = s.Node0Pointer()
	}
	switch {
	case s.inOther(from) == s.inOther(to):
		return "#" + ptr
	case s.inOther(to):
		return "sub/deep.json#" + ptr
	default:
		return "../root.json#" + ptr
	}
}

func (s SmallGraph) Edge(i, j int) bool { return s.Adj&(1<<(i*s.N+j)) != 0 }

// OnCycle tells whether node i lies on a directed cycle of the digraph.
func (s SmallGraph) OnCycle(i int) bool {
	seen := map[int]bool{}
	var stack []int
	for j := 0; j < s.N; j++ {
		if s.Edge(i, j) {
			stack = append(stack, j)
		}
	}
	for len(stack) > 0 {
		c := stack[len(stack)-1]
		stack = stack[:len(stack)-1]
		if c == i {
			return true
		}
		if seen[c] {
			continue
		}
		seen[c] = true
		for j := 0; j < s.N; j++ {
			if s.Edge(c, j) {
				stack = append(stack, j)
			}
		}
	}
	return false
}

func (s SmallGraph) node(i int) map[string]any {
	var refs []any
	for j := 0; j < s.N; j++ {
		if s.Edge(i, j) {
			refs = append(refs, map[string]any{"$ref": s.ref(i, j)})
		}
	}
	kw := SmallPlacements[s.Placement]
	if kw == "direct" && len(refs) == 1 {
		return refs[0].(map[string]any)
	}
	m := map[string]any{"title": "N" + strconv.Itoa(i)}
	if s.IDNode == i {
		m["id"] = smallIDs[s.IDKind]
	}
	if len(refs) == 0 {
		return m
	}
	switch kw {
	case "properties", "patternProperties", "definitions", "dependencies":
		mm := map[string]any{}
		for k, r := range refs {
			mm[fmt.Sprintf("e%d", k)] = r
		}
		m[kw] = mm
	case "allOf", "anyOf", "oneOf", "direct":
		if kw == "direct" {
			kw = "allOf"
		}
		m[kw] = refs
	case "itemsTuple":
		m["items"] = refs
	default: // single-slot keywords: first edge there, the rest under allOf
		m[kw] = refs[0]
		if len(refs) > 1 {
			m["allOf"] = refs[1:]
		}
	}
	return m
}

// Case builds the documents.
func (s SmallGraph) Case() GraphCase {
	root := map[string]any{"swagger": "2.0", "info": map[string]any{"title": "t", "version": "v"}, "paths": map[string]any{}}
	other := map[string]any{}
	rootDefs, otherDefs := map[string]any{}, map[string]any{}
	for i := 0; i < s.N; i++ {
		n := s.node(i)
		if i == 0 {
			switch s.EntryKind {
			case 1:
				root["parameters"] = map[string]any{"p0": map[string]any{"name": "p0", "in": "body", "schema": n}}
				continue
			case 2:
				root["responses"] = map[string]any{"r0": map[string]any{"description": "r0", "schema": n}}
				continue
			case 3:
				root["paths"] = map[string]any{"/x": map[string]any{"get": map[string]any{"responses": map[string]any{"200": map[string]any{"description": "ok", "schema": n}}}}}
				continue
			}
		}
		if s.inOther(i) {
			otherDefs["n"+strconv.Itoa(i)] = n
		} else {
			rootDefs["n"+strconv.Itoa(i)] = n
		}
	}
	if len(rootDefs) > 0 {
		root["definitions"] = rootDefs
	}
	c := GraphCase{Root: RootURL, Docs: map[string]string{}}
	b, _ := json.Marshal(root)
	c.Docs[RootURL] = string(b)
	if s.OtherDoc {
		other["definitions"] = otherDefs
		b, _ := json.Marshal(other)
		c.Docs[smallDeep] = string(b)
	}
	return c
}

// EnumerateSmall calls fn for every member of the family with at most maxN
// nodes. withIDs=false restricts the family to graphs without `id`.
func EnumerateSmall(maxN int, withIDs bool, fn func(idx int, s SmallGraph)) int {
	idx := 0
	for n := 1; n <= maxN; n++ {
		for adj := 0; adj < 1<<(n*n); adj++ {
			for pl := range SmallPlacements {
				for ek := 0; ek < 4; ek++ {
					for od := 0; od < 2; od++ {
						if od == 1 && n == 1 {
							continue
						}
						ids := [][2]any{{-1, ""}}
						if withIDs {
							for node := 0; node < n && node < 2; node++ {
								for _, k := range SmallIDKinds {
									ids = append(ids, [2]any{node, k})
								}
							}
						}
						for _, id := range ids {
							fn(idx, SmallGraph{N: n, Adj: adj, Placement: pl, EntryKind: ek, OtherDoc: od == 1, IDNode: id[0].(int), IDKind: id[1].(string)})
							idx++
						}
					}
				}
			}
		}
	}
	return idx
}
