package gen

// Structure-aware mutation of JSON values and a renderer that can emit what
// encoding/json cannot (raw number tokens, duplicate members, deep nesting).

import (
	"bytes"
	"encoding/json"
	"fmt"
	"sort"
	"strconv"
	"strings"

	"pgregory.net/rapid"
)

// Raw is emitted verbatim by Render.
type Raw string

const dupPrefix = "\x00dup:"

// Render encodes v as JSON text; keys starting with dupPrefix are emitted
// without the prefix (so an object can carry the same member name twice).
func Render(v any) []byte {
	var b bytes.Buffer
	render(&b, v)
	return b.Bytes()
}

func render(b *bytes.Buffer, v any) { renderDepth(b, v, 0) }

func renderDepth(b *bytes.Buffer, v any, depth int) {
	if depth > 2000 {
		panic("harness: value nested deeper than 2000 levels (cyclic structure?)")
	}
	switch x := v.(type) {
	case Raw:
		b.WriteString(string(x))
	case map[string]any:
		b.WriteByte('{')
		keys := make([]string, 0, len(x))
		for k := range x {
			keys = append(keys, k)
		}
		sort.Strings(keys)
		for i, k := range keys {
			if i > 0 {
				b.WriteByte(',')
			}
			name := strings.TrimPrefix(k, dupPrefix)
			kb, _ := json.Marshal(name)
			b.Write(kb)
			b.WriteByte(':')
			renderDepth(b, x[k], depth+1)
		}
		b.WriteByte('}')
	case []any:
		b.WriteByte('[')
		for i, e := range x {
			if i > 0 {
				b.WriteByte(',')
			}
			renderDepth(b, e, depth+1)
		}
		b.WriteByte(']')
	default:
		eb, err := json.Marshal(x)
		if err != nil {
			b.WriteString("null")
			return
		}
		b.Write(eb)
	}
}

// copyTree copies maps and slices (leaves, incl. Raw, are immutable): a mutation must never alias a
// sub-tree into two places, a later mutation through one alias could otherwise tie a cycle.
func copyTree(v any) any {
	switch x := v.(type) {
	case map[string]any:
		out := make(map[string]any, len(x))
		for k, e := range x {
			out[k] = copyTree(e)
		}
		return out
	case []any:
		out := make([]any, len(x))
		for i, e := range x {
			out[i] = copyTree(e)
		}
		return out
	}
	return v
}

type slot struct {
	parent any    // map[string]any or []any
	key    string // member name
	idx    int    // element index
}

func collectSlots(v any, out *[]slot) { collectSlotsDepth(v, out, 0) }

func collectSlotsDepth(v any, out *[]slot, depth int) {
	if depth > 3000 {
		desc := ""
		cur := v
		for i := 0; i < 8; i++ {
			switch x := cur.(type) {
			case map[string]any:
				ks := sortedKeysAny(x)
				desc += fmt.Sprintf(" map%q@%p", ks, x)
				if len(ks) == 0 {
					i = 99
					break
				}
				cur = x[ks[0]]
			case []any:
				desc += fmt.Sprintf(" slice[%d]@%p", len(x), x)
				if len(x) == 0 {
					i = 99
					break
				}
				cur = x[0]
			default:
				desc += fmt.Sprintf(" leaf(%T)", x)
				i = 99
			}
		}
		panic("harness: value nested deeper than 3000 levels (cyclic structure?):" + desc)
	}
	switch x := v.(type) {
	case map[string]any:
		keys := make([]string, 0, len(x))
		for k := range x {
			keys = append(keys, k)
		}
		sort.Strings(keys)
		for _, k := range keys {
			*out = append(*out, slot{parent: x, key: k})
			collectSlotsDepth(x[k], out, depth+1)
		}
	case []any:
		for i := range x {
			*out = append(*out, slot{parent: x, idx: i})
			collectSlotsDepth(x[i], out, depth+1)
		}
	}
}

func (s slot) get() any {
	if m, ok := s.parent.(map[string]any); ok {
		return m[s.key]
	}
	return s.parent.([]any)[s.idx]
}

func (s slot) set(v any) {
	if m, ok := s.parent.(map[string]any); ok {
		m[s.key] = v
		return
	}
	s.parent.([]any)[s.idx] = v
}

var extremeNumbers = []string{"1e400", "-1e400", "1e-400", "-0", "0.0", "1E+2", "1e2", "0.1e-7", "123456789012345678901234567890", "-9223372036854775809", "9223372036854775808", "18446744073709551616", "1.5", "-1", "2147483648", "0.30000000000000004", "1e308", "4.9e-324"}

var oddRefs = []any{1.0, nil, true, []any{"#/a"}, map[string]any{"$ref": "#/a"}, "", "#", "#/", "%zz", ":", "http://[::1", "#/a~2b", "#/a~", "a b", "\x00", "//", "file://", "#/definitions/" + strings.Repeat("a/", 50), "http://example.com/" + strings.Repeat("é", 30), "\\\\server\\share", "C:\\a\\b.json"}

func deepNest(depth int, kw string) Raw {
	var b strings.Builder
	switch kw {
	case "[":
		b.WriteString(strings.Repeat("[", depth))
		b.WriteString(strings.Repeat("]", depth))
	default:
		for i := 0; i < depth; i++ {
			b.WriteString(`{"` + kw + `":`)
		}
		b.WriteString("{}")
		b.WriteString(strings.Repeat("}", depth))
	}
	return Raw(b.String())
}

var replacements = []func(t *rapid.T, old any) any{
	func(t *rapid.T, old any) any { return nil },
	func(t *rapid.T, old any) any { return []any{} },
	func(t *rapid.T, old any) any { return map[string]any{} },
	func(t *rapid.T, old any) any { return 0.0 },
	func(t *rapid.T, old any) any { return "" },
	func(t *rapid.T, old any) any { return false },
	func(t *rapid.T, old any) any { return true },
	func(t *rapid.T, old any) any { return "str" },
	func(t *rapid.T, old any) any { return []any{nil} },
	func(t *rapid.T, old any) any { return map[string]any{"a": nil} },
	func(t *rapid.T, old any) any { return Raw(extremeNumbers[Uniform(t, "extreme", len(extremeNumbers))]) },
	func(t *rapid.T, old any) any {
		return map[string]any{"$ref": copyTree(oddRefs[Uniform(t, "oddref", len(oddRefs))])} // (copy: the pool holds containers; a later mutation must not reach into package-level state)
	},
	func(t *rapid.T, old any) any { return copyTree(oddRefs[Uniform(t, "oddrefv", len(oddRefs))]) },
	func(t *rapid.T, old any) any { // type swap
		switch x := old.(type) {
		case map[string]any:
			out := []any{}
			for _, k := range sortedKeysAny(x) {
				out = append(out, copyTree(x[k]))
			}
			return out
		case []any:
			out := map[string]any{}
			for i, e := range x {
				out[strconv.Itoa(i)] = copyTree(e)
			}
			return out
		case string:
			return 1.0
		case float64:
			return fmt.Sprint(x)
		case bool:
			return "true"
		}
		return "x"
	},
	func(t *rapid.T, old any) any { return []any{copyTree(old)} },
	func(t *rapid.T, old any) any { // the value repeated: a list whose members are all equal
		n := 2 + Uniform(t, "repeat", 2)
		out := make([]any, n)
		for i := range out {
			out[i] = copyTree(old)
		}
		return out
	},
	func(t *rapid.T, old any) any { return []any{nil, nil} },
	func(t *rapid.T, old any) any { return map[string]any{"schema": copyTree(old), "items": copyTree(old)} },
	func(t *rapid.T, old any) any {
		return deepNest([]int{5, 50, 200}[Uniform(t, "depth", 3)], []string{"not", "items", "additionalProperties", "[", "properties", "allOf"}[Uniform(t, "nestkw", 6)])
	},
}

// MutationInfo tells what was done (for labels and for the case-fold exemption).
type MutationInfo struct {
	N          int
	CaseFolded bool
	Duplicated bool
	TypeChange bool
	Deleted    bool
}

func caseVariant(k string) string {
	if k == "" {
		return k
	}
	up := strings.ToUpper(k[:1]) + k[1:]
	if up != k {
		return up
	}
	return strings.ToLower(k)
}

// Mutate applies 1..3 structure-aware mutations to a deep copy of v.
func Mutate(t *rapid.T, v any) (any, MutationInfo) {
	var c any
	b, _ := json.Marshal(v)
	_ = json.Unmarshal(b, &c)
	var info MutationInfo
	var trace []string
	defer func() {
		if r := recover(); r != nil {
			panic(fmt.Sprintf("%v; mutation trace: %v", r, trace))
		}
	}()
	n := 1 + Uniform(t, "nmut", 3)
	for i := 0; i < n; i++ {
		var slots []slot
		collectSlots(c, &slots)
		if len(slots) == 0 {
			c = replacements[Uniform(t, "repl", len(replacements))](t, c)
			info.N++
			info.TypeChange = true
			continue
		}
		s := slots[Uniform(t, "slot", len(slots))]
		m, isMember := s.parent.(map[string]any)
		op := Uniform(t, "mutop", 10)
		trace = append(trace, fmt.Sprintf("op=%d key=%q idx=%d nslots=%d", op, s.key, s.idx, len(slots)))
		switch {
		case op == 0 && isMember: // duplicate the member with another value
			if !strings.HasPrefix(s.key, dupPrefix) {
				m[dupPrefix+s.key] = replacements[Uniform(t, "duprepl", len(replacements))](t, copyTree(s.get()))
				info.Duplicated = true
			}
		case op == 1 && isMember: // case-fold the member name
			if !strings.HasPrefix(s.key, dupPrefix) {
				nk := caseVariant(s.key)
				if _, clash := m[nk]; !clash && nk != s.key {
					m[nk] = m[s.key]
					delete(m, s.key)
					info.CaseFolded = true
				}
			}
		case op == 2 && isMember:
			delete(m, s.key)
			info.Deleted = true
		default:
			s.set(replacements[Uniform(t, "repl", len(replacements))](t, s.get()))
			info.TypeChange = true
		}
		info.N++
	}
	return c, info
}
