package gen

// Validity-preserving generation (C19): whole Swagger 2.0 documents that the
// meta-schema schemas/v2/schema.json accepts. Validity is not taken on trust:
// the property validates every generated document with an independent validator
// before using it.

import (
	"fmt"
	"sort"
	"strings"
)

var swaggerSchemaKeywords = map[string]bool{"$ref": true, "format": true, "title": true, "description": true, "default": true, "multipleOf": true, "maximum": true, "exclusiveMaximum": true,
	"minimum": true, "exclusiveMinimum": true, "maxLength": true, "minLength": true, "pattern": true, "maxItems": true, "minItems": true, "uniqueItems": true, "maxProperties": true,
	"minProperties": true, "required": true, "enum": true, "additionalProperties": true, "type": true, "items": true, "allOf": true, "properties": true, "discriminator": true,
	"readOnly": true, "xml": true, "externalDocs": true, "example": true}

func validFields(k string, fields []field) []field {
	var out []field
	for _, fd := range fields {
		if k == "schema" && !swaggerSchemaKeywords[fd.name] {
			continue
		}
		if fd.name == "$ref" && k != "parameter" && k != "response" {
			continue // local $refs are placed by ValidSwagger itself
		}
		out = append(out, fd)
	}
	return out
}

func uniqueAny(in []any) []any {
	seen := map[string]bool{}
	out := []any{}
	for _, e := range in {
		k := string(mustMarshal(e))
		if !seen[k] {
			seen[k] = true
			out = append(out, e)
		}
	}
	return out
}

// repairValid enforces the value constraints of the meta-schema that the plain
// vocabulary generator does not know about.
func (v *V) repairValid(k, fl string, out map[string]any) {
	if f, ok := out["multipleOf"].(float64); ok && f <= 0 {
		out["multipleOf"] = 0.5
	}
	if _, ok := out["exclusiveMaximum"]; ok {
		if _, has := out["maximum"]; !has {
			out["maximum"] = 0.0
			v.ZeroValid = true
		}
	}
	if _, ok := out["exclusiveMinimum"]; ok {
		if _, has := out["minimum"]; !has {
			out["minimum"] = 0.0
			v.ZeroValid = true
		}
	}
	for _, kw := range []string{"required", "enum", "tags"} {
		if arr, ok := out[kw].([]any); ok {
			if k == "parameter" && kw == "required" {
				continue
			}
			out[kw] = uniqueAny(arr)
		}
	}
	if k == "swagger" {
		if _, ok := out["host"]; ok {
			out["host"] = []string{"example.com", "api.example.com:8080", "localhost"}[Uniform(v.T, "host", 3)]
		}
		if _, ok := out["basePath"]; ok {
			out["basePath"] = []string{"/", "/v1", "/a b/é"}[Uniform(v.T, "basePath", 3)]
		}
	}
	if k == "schema" {
		// the meta-schema's `type` is the draft-4 simpleTypes enum (+ "file" is a separate definition)
		if tv, ok := out["type"].([]any); ok {
			out["type"] = uniqueAny(tv)
		}
		// a local, well-founded $ref replaces a schema now and then
		if len(v.DefNames) > 0 && Pct(v.T, "localref", 20) {
			for key := range out {
				delete(out, key)
			}
			out["$ref"] = "#/definitions/" + fragEscape(v.DefNames[Uniform(v.T, "defref", len(v.DefNames))])
		}
	}
	if (k == "parameter" || k == "header" || k == "items") && out["type"] == "array" {
		if _, has := out["items"]; !has {
			out["items"] = map[string]any{"type": "string"}
		}
	}
	if k == "parameter" && fl == "ref" {
		if len(v.ParamNames) > 0 {
			out["$ref"] = "#/parameters/" + fragEscape(v.ParamNames[Uniform(v.T, "paramref", len(v.ParamNames))])
		} else {
			delete(out, "$ref")
			out["name"], out["in"], out["type"] = "fallback", "query", "string"
		}
	}
	if k == "response" && fl == "ref" {
		if len(v.RespNames) > 0 {
			out["$ref"] = "#/responses/" + fragEscape(v.RespNames[Uniform(v.T, "respref", len(v.RespNames))])
		} else {
			delete(out, "$ref")
			out["description"] = "fallback"
		}
	}
	if k == "operation" || k == "swagger" {
		if sec, ok := out["security"].([]any); ok {
			for _, r := range sec {
				if m, ok := r.(map[string]any); ok {
					for name, scopes := range m {
						if arr, ok := scopes.([]any); ok {
							m[name] = uniqueAny(arr)
						}
					}
				}
			}
		}
	}
	if k == "operation" || k == "pathItem" {
		// parameter lists must be unique
		if ps, ok := out["parameters"].([]any); ok {
			out["parameters"] = uniqueAny(ps)
		}
	}
}

func (v *V) distinctNames(label string, max int) []string {
	n := Uniform(v.T, label+"#", max+1)
	set := map[string]bool{}
	for i := 0; i < n; i++ {
		set[v.Name(label)] = true
	}
	out := make([]string, 0, len(set))
	for k := range set {
		out = append(out, k)
	}
	sort.Strings(out)
	return out
}

// ValidSwagger draws a whole Swagger 2.0 document meant to be schema-valid,
// with local, resolvable $refs between its elements.
func (v *V) ValidSwagger() map[string]any {
	v.O.Valid = true
	v.O.Refs = true
	v.DefNames = v.distinctNames("defname", 4)
	v.ParamNames = v.distinctNames("paramname", 3)
	v.RespNames = v.distinctNames("respname", 3)
	doc := map[string]any{"swagger": "2.0"}
	doc["info"] = v.instance("info", 1, "")
	recursiveDef := "" // a definition made recursive by construction: shared parameters and responses like to point straight at it
	pickDef := func(label string) string {
		if recursiveDef != "" && Pct(v.T, label+"?recursive", 60) {
			return recursiveDef
		}
		return v.DefNames[Uniform(v.T, label, len(v.DefNames))]
	}
	// referable elements first: parameters and responses in the global sections are full objects (no $ref to $ref chains that could be unfounded)
	if len(v.DefNames) > 0 {
		defs := map[string]any{}
		for _, n := range v.DefNames {
			defs[n] = v.instance("schema", 1, "")
		}
		// recursive definitions are common in real documents: make some by construction
		if Pct(v.T, "recursive", 35) {
			n0 := v.DefNames[Uniform(v.T, "recdef", len(v.DefNames))]
			recursiveDef = n0
			if d0, ok := defs[n0].(map[string]any); ok {
				if _, isRef := d0["$ref"]; !isRef {
					props, _ := d0["properties"].(map[string]any)
					if props == nil {
						props = map[string]any{}
					}
					props["self"] = map[string]any{"$ref": "#/definitions/" + fragEscape(n0)}
					d0["properties"] = props
				}
			}
		}
		doc["definitions"] = defs
	}
	savedP, savedR := v.ParamNames, v.RespNames
	v.ParamNames, v.RespNames = nil, nil
	if len(savedP) > 0 {
		ps := map[string]any{}
		for _, n := range savedP {
			fls := []string{"body", "query", "formData", "path", "header"}
			ps[n] = v.instanceFl("parameter", fls[Uniform(v.T, "gparamfl", len(fls))], 1, "")
			// a body parameter whose schema is directly a $ref to a definition
			if len(v.DefNames) > 0 && Pct(v.T, "bodyref", 25) {
				ps[n] = map[string]any{"name": "body", "in": "body", "schema": map[string]any{"$ref": "#/definitions/" + fragEscape(pickDef("bodyrefdef"))}}
			}
		}
		doc["parameters"] = ps
	}
	if len(savedR) > 0 {
		rs := map[string]any{}
		for _, n := range savedR {
			rs[n] = v.instanceFl("response", "", 1, "")
			// a response whose schema is directly a $ref to a definition
			if len(v.DefNames) > 0 && Pct(v.T, "respref", 25) {
				rs[n] = map[string]any{"description": []string{"", "d"}[Uniform(v.T, "resprefdesc", 2)], "schema": map[string]any{"$ref": "#/definitions/" + fragEscape(pickDef("resprefdef"))}}
			}
		}
		doc["responses"] = rs
	}
	v.ParamNames, v.RespNames = savedP, savedR
	doc["paths"] = v.instance("paths", 0, "")
	for _, fd := range fieldsOf("swagger", "") {
		switch fd.name {
		case "swagger", "info", "paths", "definitions", "parameters", "responses":
			continue
		}
		if Pct(v.T, "has:"+fd.name, 35) {
			doc[fd.name] = fd.gen(v, 1)
		}
	}
	v.repairValid("swagger", "", doc)
	v.extensions(doc, "swagger", "")
	_ = strings.TrimSpace
	if Pct(v.T, "long chain", 4) {
		// a long, well-founded chain of parameter (or response) references: the shared sections cannot hold
		// references in a valid document, so the chain hops through operation-level entries
		paths, _ := doc["paths"].(map[string]any)
		if paths == nil {
			paths = map[string]any{}
			doc["paths"] = paths
		}
		n := 6 + Uniform(v.T, "chainlen", 10)
		viaResponses := Pct(v.T, "chain of responses", 40)
		for i := 0; i <= n; i++ {
			op := map[string]any{"responses": map[string]any{"200": map[string]any{"description": "ok"}}}
			next := fmt.Sprintf("#/paths/~1chain%d/get", i+1)
			switch {
			case viaResponses && i < n:
				op["responses"] = map[string]any{"200": map[string]any{"$ref": next + "/responses/200"}}
			case viaResponses:
				op["responses"] = map[string]any{"200": map[string]any{"description": "end of the chain", "schema": map[string]any{"type": "string"}}}
			case i < n:
				op["parameters"] = []any{map[string]any{"$ref": next + "/parameters/0"}}
			default:
				op["parameters"] = []any{map[string]any{"name": "end-of-chain", "in": "query", "type": "string"}}
			}
			paths[fmt.Sprintf("/chain%d", i)] = map[string]any{"get": op}
		}
	}
	return doc
}
