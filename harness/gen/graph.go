// Package gen holds the rapid generators shared by the properties.
package gen

import (
	"encoding/json"
	"fmt"
	"net/url"
	"sort"
	"strconv"
	"strings"

	"pgregory.net/rapid"

	"verif/model"
)

// GraphCase is a multi-document reference graph: the replayable unit of the
// expansion / resolution properties.
type GraphCase struct {
	Root string            `json:"root"`
	Docs map[string]string `json:"docs"` // canonical URL -> JSON text
}

func (c GraphCase) Canon() []byte {
	b, _ := json.Marshal(c)
	return b
}

func (c GraphCase) Graph() *model.Graph {
	g, err := model.LoadGraph(c.Docs)
	if err != nil {
		panic(err)
	}
	return g
}

// RootURL of all generated graphs: two directories deep so that ../ has somewhere to go.
const RootURL = "file:///w/a/root.json"

// DocPool: where the other documents live. Chosen to exercise the path
// arithmetic: sibling, sub-directory, parent directory, prefix-confusable name,
// other schemes/hosts.
var DocPool = []string{
	"file:///w/a/sib.json",
	"file:///w/a/sub/deep.json",
	"file:///w/up.json",
	"file:///w/a/root.json2",
	"http://h.example/x/remote.json",
	"http://h.example/x/y/far.json",
	"https://s.example/sec.json",
	"file:///w/a/Sib.json",                 // differs from sib.json by letter case only
	"file:///w/ab/side.json",               // its directory name starts with the root's directory name
	"http://h.example/x/remote.json?rev=2", // the query is part of the location of a remote document
}

// NamePool: element and property names, several needing ~0/~1 or percent escapes.
var NamePool = []string{"a", "b", "c", "d e", "f/g", "h~i", "j%k", "l{m}", "é", "n#o", "p?q", "~1", "%41", "A", "B", "w ", "\u00a0y", "w"}

// QuoteNames need JSON string escaping when used as member names.
var QuoteNames = []string{"q\"r", "s\\t", "u\nv"}

type Spelling int

const (
	SpellFragment Spelling = 1 << iota // "#/..." for targets in the holder's document
	SpellRelative                      // "sib.json#/...", "../up.json#/..."
	SpellDotSlash                      // "./sib.json#/..."
	SpellAbsolute                      // "file:///w/a/sib.json#/..."
	SpellRootRel                       // "/w/a/sib.json#/..." (absolute-path reference)
	SpellMessy                         // absolute URLs may be written non-canonically (dot segments, upper-case scheme/host, default port)
	SpellLiteral                       // the fragment may be written with the least percent-escaping the URL parser accepts
	SpellAll      = SpellFragment | SpellRelative | SpellDotSlash | SpellAbsolute | SpellRootRel | SpellMessy | SpellLiteral
)

// GraphOpts are the knobs a property sets.
type GraphOpts struct {
	MaxDocs     int      // 1..len(DocPool)+1
	Spell       Spelling // allowed spellings
	TwinPct     int      // probability of a twin document (structural copy of another one under another URL, see twin)
	EmptyPct    int      // share of the non-`$ref` sub-schemas that are the empty schema {} (a target that is an empty object)
	IDs         bool     // attach `id`s to some schemas (C04 only: ids change the resolution scope)
	RelDirIDs   bool     // allow relative ids with a directory component (K1)
	QuoteNames  bool     // use names needing JSON escaping
	RefPct      int      // probability (percent) that a nested schema position is a $ref hole
	CycleBias   int      // probability (percent) that a hole is wired to an ancestor of its holder
	MaxElems    int      // elements per section
	SchemaDocs  bool     // allow documents whose root is a plain schema (whole-document targets)
	NoPathItems bool
	Payloads    bool   // plant free-form payloads that contain the key $ref (they are not reference positions)
	DagPct      int    // probability (percent) that the whole graph is wired acyclic by construction
	LabelPrefix string // prepended to every content label (C16: variants of the same documents must be tellable apart)
	OnlyFragAbs bool   // refs are fragment-only or absolute URLs (the documented domain of the root-based entry points)
}

func DefaultGraphOpts() GraphOpts {
	return GraphOpts{MaxDocs: 5, Spell: SpellAll, RefPct: 35, CycleBias: 8, MaxElems: 3, SchemaDocs: true, DagPct: 40, QuoteNames: true, TwinPct: 20}
}

type target struct {
	p      model.Pos
	k      model.Kind
	idx    int
	isHole bool
}

type hole struct {
	holder map[string]any
	at     model.Pos
	k      model.Kind
	idx    int // creation index of the hole's own position among the targets
}

type gstate struct {
	t       *rapid.T
	o       GraphOpts
	targets []target
	holes   []hole
	label   int
	names   []string
	common  []string
}

func (s *gstate) addTarget(p model.Pos, k model.Kind, isHole bool) int {
	s.targets = append(s.targets, target{p, k, len(s.targets), isHole})
	return len(s.targets) - 1
}

func (s *gstate) newLabel(prefix string) string {
	s.label++
	return s.o.LabelPrefix + prefix + strconv.Itoa(s.label)
}

// name draws an element or property name. Half of the time it comes from a short per-graph list, so that the
// same names (hence the same fragment-only $ref texts) occur in several documents, as in real multi-file specs.
func (s *gstate) name(label string) string {
	if len(s.common) > 0 && rapid.Bool().Draw(s.t, "commonname") {
		return s.common[Uniform(s.t, label, len(s.common))]
	}
	return rapid.SampledFrom(s.names).Draw(s.t, label)
}

var schemaKWs = []string{"properties", "patternProperties", "definitions", "dependencies", "allOf", "anyOf", "oneOf", "not", "additionalProperties", "additionalItems", "items", "itemsTuple"}

var idPool = []string{"http://ids.example/s1.json", "http://ids.example/d/s2.json", "other.json", "idfile.json", "#anchor", "file:///w/a/sib.json"}
var relDirIDPool = []string{"sub/", "sub/x.json", "../y.json", "d/e/"}

func (s *gstate) genSchema(at model.Pos, depth int, refPct int) map[string]any {
	t := s.t
	if depth > 0 && Pct(t, "isref", refPct) {
		h := map[string]any{}
		if Pct(t, "sibling", 15) {
			h["description"] = "sibling-of-ref"
		}
		s.holes = append(s.holes, hole{h, at, model.KSchema, s.addTarget(at, model.KSchema, true)})
		return h
	}
	if depth > 0 && s.o.EmptyPct > 0 && Pct(t, "empty schema", s.o.EmptyPct) {
		s.addTarget(at, model.KSchema, false)
		return map[string]any{}
	}
	m := map[string]any{"title": s.newLabel("S")}
	s.addTarget(at, model.KSchema, false)
	if s.o.IDs && Pct(t, "hasid", 17) {
		pool := idPool
		if s.o.RelDirIDs {
			pool = append(append([]string{}, idPool...), relDirIDPool...)
		}
		m["id"] = rapid.SampledFrom(pool).Draw(t, "id")
	}
	if s.o.Payloads && Pct(t, "payload", 12) {
		switch rapid.IntRange(0, 2).Draw(t, "payloadkind") {
		case 0:
			m["example"] = map[string]any{"$ref": "#/definitions/not-a-reference"}
		case 1:
			m["x-payload"] = map[string]any{"$ref": "nowhere.json#/x", "n": []any{map[string]any{"$ref": "#"}}}
		default:
			m["default"] = map[string]any{"$ref": 1}
		}
	}
	if depth >= 3 {
		return m
	}
	n := rapid.IntRange(0, 3).Draw(t, "nkw")
	for i := 0; i < n; i++ {
		kw := schemaKWs[Uniform(t, "kw", len(schemaKWs))]
		realKw := kw
		if kw == "itemsTuple" {
			realKw = "items"
		}
		if _, dup := m[realKw]; dup {
			continue
		}
		switch kw {
		case "properties", "patternProperties", "definitions", "dependencies":
			mm := map[string]any{}
			for j, c := 0, rapid.IntRange(1, 2).Draw(t, "nmembers"); j < c; j++ {
				name := s.name("member")
				if kw == "patternProperties" {
					name = rapid.SampledFrom([]string{"^a", "b$", "c", "^x-"}).Draw(t, "pattern")
				}
				if _, dup := mm[name]; dup {
					continue
				}
				mm[name] = s.genSchema(at.Child(kw, name), depth+1, refPct)
			}
			m[kw] = mm
		case "allOf", "anyOf", "oneOf":
			var arr []any
			for j, c := 0, rapid.IntRange(1, 2).Draw(t, "nitems"); j < c; j++ {
				arr = append(arr, s.genSchema(at.Child(kw, strconv.Itoa(j)), depth+1, refPct))
			}
			m[kw] = arr
		case "not", "additionalProperties", "additionalItems", "items":
			m[kw] = s.genSchema(at.Child(kw), depth+1, refPct)
		case "itemsTuple":
			var arr []any
			for j, c := 0, rapid.IntRange(1, 2).Draw(t, "nitems"); j < c; j++ {
				arr = append(arr, s.genSchema(at.Child("items", strconv.Itoa(j)), depth+1, refPct))
			}
			m["items"] = arr
		}
	}
	return m
}

func (s *gstate) genParam(at model.Pos, refPct int) map[string]any {
	t := s.t
	if Pct(t, "pisref", refPct) {
		h := map[string]any{}
		s.holes = append(s.holes, hole{h, at, model.KParam, s.addTarget(at, model.KParam, true)})
		return h
	}
	s.addTarget(at, model.KParam, false)
	if rapid.Bool().Draw(t, "body") {
		return map[string]any{"name": s.newLabel("P"), "in": "body", "schema": s.genSchema(at.Child("schema"), 1, 60)}
	}
	if Pct(t, "arrayparam", 30) {
		// a simple-schema array parameter: its items objects are targets of ResolveItems (C05)
		items := map[string]any{"type": "string", "format": s.newLabel("IT")}
		if Pct(t, "nesteditems", 40) {
			items = map[string]any{"type": "array", "format": s.newLabel("IT"), "items": map[string]any{"type": "integer", "format": s.newLabel("IT"), "x-items": s.newLabel("X")}}
		}
		return map[string]any{"name": s.newLabel("P"), "in": "query", "type": "array", "items": items, "collectionFormat": "csv"}
	}
	return map[string]any{"name": s.newLabel("P"), "in": "query", "type": "string"}
}

func (s *gstate) genResponse(at model.Pos, refPct int) map[string]any {
	t := s.t
	if Pct(t, "risref", refPct) {
		h := map[string]any{}
		s.holes = append(s.holes, hole{h, at, model.KResponse, s.addTarget(at, model.KResponse, true)})
		return h
	}
	s.addTarget(at, model.KResponse, false)
	m := map[string]any{"description": s.newLabel("R")}
	if rapid.Bool().Draw(t, "rschema") {
		m["schema"] = s.genSchema(at.Child("schema"), 1, 60)
	}
	return m
}

func (s *gstate) genPathItem(at model.Pos, refPct int) map[string]any {
	t := s.t
	if Pct(t, "iisref", refPct) {
		h := map[string]any{}
		s.holes = append(s.holes, hole{h, at, model.KPathItem, s.addTarget(at, model.KPathItem, true)})
		return h
	}
	s.addTarget(at, model.KPathItem, false)
	m := map[string]any{"x-label": s.newLabel("I")}
	if rapid.Bool().Draw(t, "iparams") {
		var arr []any
		for j, c := 0, rapid.IntRange(1, 2).Draw(t, "n"); j < c; j++ {
			arr = append(arr, s.genParam(at.Child("parameters", strconv.Itoa(j)), 50))
		}
		m["parameters"] = arr
	}
	for _, opn := range []string{"get", "post", "patch"} {
		if !Pct(t, "op", 35) {
			continue
		}
		op := map[string]any{"operationId": s.newLabel("O")}
		if rapid.Bool().Draw(t, "opparams") {
			var arr []any
			for j, c := 0, rapid.IntRange(1, 2).Draw(t, "n"); j < c; j++ {
				arr = append(arr, s.genParam(at.Child(opn, "parameters", strconv.Itoa(j)), 50))
			}
			op["parameters"] = arr
		}
		rs := map[string]any{}
		// (besides the usual ones, a status code drawn from the whole range: code tables must not be assumed complete)
		for _, code := range []string{"default", "200", "404", strconv.Itoa(100 + Uniform(t, "oddcode", 500))} {
			if _, dup := rs[code]; dup {
				continue // (the drawn code may be 200 or 404 again: positions registered for the first one must stay valid)
			}
			if Pct(t, "code", 35) {
				rs[code] = s.genResponse(at.Child(opn, "responses", code), 50)
			}
		}
		op["responses"] = rs
		m[opn] = op
	}
	return m
}

// fragmentOf percent-encodes a pointer for use as a URL fragment.
func fragmentOf(ptr string, escapeMore bool) string {
	if ptr == "" {
		return ""
	}
	var sb strings.Builder
	for _, c := range []byte(ptr) {
		switch {
		case c == '%' || c == ' ' || c == '{' || c == '}' || c == '#' || c == '"' || c == '\\' || c == '^' || c == '`' || c == '|' || c == '<' || c == '>' || c < 0x20 || c >= 0x7f:
			fmt.Fprintf(&sb, "%%%02X", c)
		case escapeMore && (c == '?' || c == '$' || c == 'a'):
			fmt.Fprintf(&sb, "%%%02X", c)
		default:
			sb.WriteByte(c)
		}
	}
	return "#" + sb.String()
}

// literalFragment spells a pointer as a fragment with the least escaping Go's URL parser needs: only '%' and
// control characters are percent-encoded; blanks, braces, quotes, '#', '?' and non-ASCII characters stay as they are.
func literalFragment(ptr string) string {
	if ptr == "" {
		return ""
	}
	var sb strings.Builder
	for _, c := range []byte(ptr) {
		if c == '%' || c < 0x20 || c == 0x7f {
			fmt.Fprintf(&sb, "%%%02X", c)
		} else {
			sb.WriteByte(c)
		}
	}
	return "#" + sb.String()
}

// FragmentOf is the URL-fragment spelling ("#...") of a JSON pointer.
func FragmentOf(ptr string) string { return fragmentOf(ptr, false) }

func pathBase(p string) string { return p[strings.LastIndex(p, "/")+1:] }

func relPath(from, to string) string {
	fd := strings.Split(from, "/")
	fd = fd[1 : len(fd)-1]
	td := strings.Split(to, "/")
	tf := td[len(td)-1]
	td = td[1 : len(td)-1]
	i := 0
	for i < len(fd) && i < len(td) && fd[i] == td[i] {
		i++
	}
	var parts []string
	for j := i; j < len(fd); j++ {
		parts = append(parts, "..")
	}
	parts = append(parts, td[i:]...)
	parts = append(parts, tf)
	return strings.Join(parts, "/")
}

// Spell writes a `$ref` string that designates tp when it appears in document hdoc.
func Spell(t *rapid.T, hdoc string, tp model.Pos, allowed Spelling) string {
	frag := fragmentOf(tp.Ptr, Pct(t, "escmore", 8))
	if allowed&SpellLiteral != 0 && Pct(t, "literal fragment", 12) {
		frag = literalFragment(tp.Ptr)
	}
	hu, _ := url.Parse(hdoc)
	tu, _ := url.Parse(tp.Doc)
	sameDoc := tp.Doc == hdoc
	sameHost := hu.Scheme == tu.Scheme && hu.Host == tu.Host
	// A query is part of the location of a document, but how a *relative* $ref combines with a query is
	// deliberately not RFC 3986 in this package (the suite pins that a relative $ref inherits the query of its
	// base) and no listed property fixes it: documents with a query are therefore only referred to, and only
	// refer to others, by fragment-only or absolute $refs, on which both readings agree.
	if hu.RawQuery != "" || tu.RawQuery != "" {
		allowed &= SpellFragment | SpellAbsolute
	}
	var styles []Spelling
	for _, st := range []Spelling{SpellFragment, SpellRelative, SpellDotSlash, SpellAbsolute, SpellRootRel} {
		if allowed&st == 0 {
			continue
		}
		switch st {
		case SpellFragment:
			if !sameDoc || frag == "" {
				continue
			}
			styles = append(styles, st, st) // weight 2
		case SpellRelative, SpellDotSlash, SpellRootRel:
			if !sameHost {
				continue
			}
			styles = append(styles, st)
		case SpellAbsolute:
			styles = append(styles, st)
		}
	}
	if len(styles) == 0 {
		styles = []Spelling{SpellAbsolute}
	}
	query := ""
	if tu.RawQuery != "" {
		query = "?" + tu.RawQuery
	}
	switch styles[Uniform(t, "style", len(styles))] {
	case SpellFragment:
		return frag
	case SpellRelative:
		return relPath(hu.Path, tu.Path) + query + frag
	case SpellDotSlash:
		rel := relPath(hu.Path, tu.Path)
		if !strings.HasPrefix(rel, "../") {
			rel = "./" + rel
		}
		return rel + query + frag
	case SpellRootRel:
		return tu.Path + query + frag
	}
	if allowed&SpellMessy != 0 && Pct(t, "messyabs", 20) {
		// an equivalent, non-canonical absolute URL: redundant dot segments, upper-case scheme/host, default port
		u := *tu
		dir, file := u.Path[:strings.LastIndex(u.Path, "/")+1], pathBase(u.Path)
		switch Uniform(t, "messykind", 5) {
		case 4:
			if u.Scheme == "file" {
				// for a local file the query is irrelevant (the package says so for base locations): same document
				return u.String() + []string{"?", "?rev=2"}[Uniform(t, "filequery", 2)] + frag
			}
			u.Path = dir + "./" + file
		case 0:
			u.Path = dir + "./" + file
		case 1:
			u.Path = dir + "zz/../" + file
		case 2:
			u.Scheme = strings.ToUpper(u.Scheme)
			u.Host = strings.ToUpper(u.Host)
		case 3:
			if u.Scheme == "http" {
				u.Host += ":80"
			} else if u.Scheme == "https" {
				u.Host += ":443"
			} else {
				u.Path = dir + "./" + file
			}
		}
		return u.String() + frag
	}
	return tp.Doc + frag
}

func isAncestor(anc, p model.Pos) bool {
	return anc.Doc == p.Doc && (anc.Ptr == p.Ptr || strings.HasPrefix(p.Ptr, anc.Ptr+"/"))
}

// Graph draws a multi-document reference graph.
func Graph(t *rapid.T, o GraphOpts) GraphCase {
	s := &gstate{t: t, o: o, names: NamePool}
	if o.QuoteNames {
		s.names = append(append([]string{}, NamePool...), QuoteNames...)
	}
	for i, n := 0, 1+Uniform(t, "ncommon", 2); i < n; i++ {
		s.common = append(s.common, s.names[Uniform(t, "common", len(s.names))])
	}
	if o.MaxElems == 0 {
		o.MaxElems = 3
		s.o.MaxElems = 3
	}
	maxDocs := o.MaxDocs
	if maxDocs < 1 {
		maxDocs = 1
	}
	if maxDocs > len(DocPool)+1 {
		maxDocs = len(DocPool) + 1
	}
	nd := rapid.IntRange(1, maxDocs).Draw(t, "ndocs")
	urls := []string{RootURL}
	if nd > 1 {
		rest := rapid.Permutation(DocPool).Draw(t, "docs")
		urls = append(urls, rest[:nd-1]...)
	}
	docs := map[string]any{}
	// documents are generated in a drawn order: the creation index orders the
	// targets in dag mode, and the root must not always come first (back references)
	order := make([]int, len(urls))
	for i := range order {
		order[i] = i
	}
	if len(urls) > 1 {
		order = rapid.Permutation(order).Draw(t, "genorder")
	}
	for _, i := range order {
		u := urls[i]
		base := model.Pos{Doc: u}
		if i > 0 && o.SchemaDocs && Pct(t, "schemadoc", 15) {
			// a document whose root is a plain schema: target of whole-document refs
			docs[u] = s.genSchema(base, 0, o.RefPct)
			continue
		}
		if i > 0 && o.SchemaDocs && Pct(t, "arraydoc", 7) {
			// a document whose top-level value is an array of schemas: pointers such as arr.json#/1 work on it
			var arr []any
			for j, c := 0, 1+Uniform(t, "narr", 3); j < c; j++ {
				arr = append(arr, s.genSchema(base.Child(strconv.Itoa(j)), 0, o.RefPct))
			}
			docs[u] = arr
			continue
		}
		d := map[string]any{}
		if i == 0 {
			d["swagger"] = "2.0"
			d["info"] = map[string]any{"title": "t", "version": "v"}
		}
		defs := map[string]any{}
		for j, c := 0, rapid.IntRange(0, o.MaxElems).Draw(t, "ndefs"); j < c; j++ {
			name := s.name("defname")
			if _, dup := defs[name]; dup {
				continue
			}
			defs[name] = s.genSchema(base.Child("definitions", name), 0, o.RefPct)
		}
		if len(defs) > 0 {
			d["definitions"] = defs
		}
		params := map[string]any{}
		for j, c := 0, rapid.IntRange(0, o.MaxElems-1).Draw(t, "nparams"); j < c; j++ {
			name := s.name("paramname")
			if _, dup := params[name]; dup {
				continue
			}
			params[name] = s.genParam(base.Child("parameters", name), 30)
		}
		if len(params) > 0 {
			d["parameters"] = params
		}
		resps := map[string]any{}
		for j, c := 0, rapid.IntRange(0, o.MaxElems-1).Draw(t, "nresps"); j < c; j++ {
			name := s.name("respname")
			if _, dup := resps[name]; dup {
				continue
			}
			resps[name] = s.genResponse(base.Child("responses", name), 30)
		}
		if len(resps) > 0 {
			d["responses"] = resps
		}
		paths := map[string]any{}
		if !o.NoPathItems {
			for j, c := 0, rapid.IntRange(0, o.MaxElems-1).Draw(t, "npaths"); j < c; j++ {
				name := "/" + []string{"p", "q/{id}", "r s", "t~u", "p/", "/p", "a/./b", "x/../p", "a%41", "b%7Bid%7D"}[Uniform(t, "pathname", 10)]
				if _, dup := paths[name]; dup {
					continue
				}
				paths[name] = s.genPathItem(base.Child("paths", name), 30)
			}
		}
		if len(paths) > 0 || i == 0 {
			d["paths"] = paths
		}
		docs[u] = d
	}
	// wire the holes
	byKind := map[model.Kind][]target{}
	for _, tg := range s.targets {
		byKind[tg.k] = append(byKind[tg.k], tg)
	}
	spell := o.Spell
	if spell == 0 {
		spell = SpellAll
	}
	dag := Pct(t, "dag", o.DagPct)
	for _, h := range s.holes {
		cands := byKind[h.k]
		if o.OnlyFragAbs {
			spell = SpellFragment | SpellAbsolute | (spell & (SpellMessy | SpellLiteral))
		}
		if len(cands) == 0 {
			s.plug(h)
			continue
		}
		if dag {
			// acyclic by construction: only targets created after the hole
			var later []target
			for _, c := range cands {
				if c.idx > h.idx {
					later = append(later, c)
				}
			}
			cands = later
			if len(cands) == 0 {
				s.plug(h)
				continue
			}
		}
		if h.k == model.KSchema && Pct(t, "prefertopdefs", 35) {
			// as in real specifications, many schema $refs designate a top-level definition
			var tops []target
			for _, c := range cands {
				if strings.HasPrefix(c.p.Ptr, "/definitions/") && strings.Count(c.p.Ptr, "/") == 2 {
					tops = append(tops, c)
				}
			}
			if len(tops) > 0 {
				cands = tops
			}
		}
		if h.k != model.KSchema && Pct(t, "prefercontent", 60) {
			// keep most parameter/response/path-item chains well-founded
			var content []target
			for _, c := range cands {
				if !c.isHole {
					content = append(content, c)
				}
			}
			if len(content) > 0 {
				cands = content
			}
		}
		var tg target
		var anc []target
		if o.CycleBias > 0 && !dag {
			for _, c := range cands {
				if isAncestor(c.p, h.at) && c.p != h.at {
					anc = append(anc, c)
				}
			}
		}
		if len(anc) > 0 && Pct(t, "cyc", o.CycleBias) {
			tg = rapid.SampledFrom(anc).Draw(t, "ancestor")
		} else {
			tg = cands[Uniform(t, "target", len(cands))]
		}
		ref := Spell(t, h.at.Doc, tg.p, spell)
		if ref == "" {
			// whole own document spelled relative to itself is the empty reference; use the file name
			ref = pathBase(h.at.Doc[strings.Index(h.at.Doc, "://")+3:])
		}
		h.holder["$ref"] = ref
	}
	if o.TwinPct > 0 && len(urls) < maxDocs && Pct(t, "twin document", o.TwinPct) { // (the twin counts as a document: MaxDocs holds)
		s.twin(urls, docs, spell)
	}
	out := GraphCase{Root: RootURL, Docs: map[string]string{}}
	for u, d := range docs {
		b, _ := json.Marshal(d)
		out.Docs[u] = string(b)
	}
	return out
}

// twin adds a document that is a structural copy of one of the documents (same pointers, every label
// suffixed) under an unused URL, preferably in the same folder, and redirects some of the `$ref`s that
// designate the original to the same pointer of the copy: one `$ref` text (a fragment-only one above all) then
// designates different things in two documents met during one expansion.
func (s *gstate) twin(urls []string, docs map[string]any, spell Spelling) {
	t := s.t
	used := map[string]bool{}
	for _, u := range urls {
		used[u] = true
	}
	src := urls[Uniform(t, "twin of", len(urls))]
	if strings.Contains(src, "?") {
		return
	}
	dirOf := func(u string) string { return u[:strings.LastIndex(u, "/")+1] }
	var same, other []string
	for _, u := range DocPool {
		if used[u] || strings.Contains(u, "?") {
			continue
		}
		if dirOf(u) == dirOf(src) {
			same = append(same, u)
		} else {
			other = append(other, u)
		}
	}
	cands := same
	if len(cands) == 0 || Pct(t, "twin elsewhere", 25) {
		cands = append(cands, other...)
	}
	if len(cands) == 0 {
		return
	}
	dst := cands[Uniform(t, "twin at", len(cands))]
	var cp any
	b, _ := json.Marshal(docs[src])
	_ = json.Unmarshal(b, &cp)
	if m, ok := cp.(map[string]any); ok {
		delete(m, "swagger")
		delete(m, "info")
	}
	var relabel func(n any)
	relabel = func(n any) {
		switch x := n.(type) {
		case map[string]any:
			for k, v := range x {
				if sv, ok := v.(string); ok && (k == "title" || k == "format" || k == "x-label" || k == "x-items" || k == "description" || (k == "name" && x["in"] != nil)) {
					x[k] = sv + "-tw"
					continue
				}
				relabel(v)
			}
		case []any:
			for _, e := range x {
				relabel(e)
			}
		}
	}
	relabel(cp)
	// the copy lives at another URL: its $refs that carry a path are spelled anew from there (same targets);
	// the fragment-only ones stay as they are and now designate the copy's own members
	var respell func(n any)
	respell = func(n any) {
		switch x := n.(type) {
		case map[string]any:
			if r, ok := x["$ref"].(string); ok && !strings.HasPrefix(r, "#") && r != "" {
				if tp, err := model.Resolve(src, r); err == nil {
					if nr := Spell(t, dst, tp, spell); nr != "" {
						x["$ref"] = nr
					}
				}
			}
			keys := make([]string, 0, len(x))
			for k := range x {
				keys = append(keys, k)
			}
			sort.Strings(keys)
			for _, k := range keys {
				respell(x[k])
			}
		case []any:
			for _, e := range x {
				respell(e)
			}
		}
	}
	respell(cp)
	// redirect (the copy keeps its own $refs: fragment-only ones now stay inside the copy)
	holders := make([]string, 0, len(docs))
	for u := range docs {
		holders = append(holders, u)
	}
	sort.Strings(holders)
	for _, u := range holders {
		var walk func(n any)
		walk = func(n any) {
			switch x := n.(type) {
			case map[string]any:
				if r, ok := x["$ref"].(string); ok {
					if tp, err := model.Resolve(u, r); err == nil && tp.Doc == src && Pct(t, "to the twin", 40) {
						if nr := Spell(t, u, model.Pos{Doc: dst, Ptr: tp.Ptr}, spell); nr != "" {
							x["$ref"] = nr
						}
					}
				}
				keys := make([]string, 0, len(x))
				for k := range x {
					keys = append(keys, k)
				}
				sort.Strings(keys)
				for _, k := range keys {
					walk(x[k])
				}
			case []any:
				for _, e := range x {
					walk(e)
				}
			}
		}
		walk(docs[u])
	}
	docs[dst] = cp
}

// Rehome moves the document at URL from to URL to: every `$ref` that designates it is respelled as an absolute
// URL of the new home, and its own `$ref`s that carry a path are respelled as absolute URLs of their (unchanged)
// targets, so that nothing depends on where it used to be.
func Rehome(c GraphCase, from, to string) GraphCase {
	if _, ok := c.Docs[from]; !ok || from == c.Root {
		return c
	}
	out := GraphCase{Root: c.Root, Docs: map[string]string{}}
	for u, d := range c.Docs {
		var v any
		_ = json.Unmarshal([]byte(d), &v)
		var walk func(n any)
		walk = func(n any) {
			switch x := n.(type) {
			case map[string]any:
				if r, ok := x["$ref"].(string); ok {
					if tp, err := model.Resolve(u, r); err == nil {
						switch {
						case tp.Doc == from && !(u == from && strings.HasPrefix(r, "#")):
							x["$ref"] = to + fragmentOf(tp.Ptr, false)
						case u == from && !strings.HasPrefix(r, "#") && r != "":
							x["$ref"] = tp.Doc + fragmentOf(tp.Ptr, false)
						}
					}
				}
				for _, e := range x {
					walk(e)
				}
			case []any:
				for _, e := range x {
					walk(e)
				}
			}
		}
		walk(v)
		b, _ := json.Marshal(v)
		if u == from {
			u = to
		}
		out.Docs[u] = string(b)
	}
	return out
}

// plug turns a hole without any possible target into plain content.
func (s *gstate) plug(h hole) {
	delete(h.holder, "description")
	switch h.k {
	case model.KSchema:
		h.holder["title"] = s.newLabel("S")
	case model.KParam:
		h.holder["name"], h.holder["in"], h.holder["type"] = s.newLabel("P"), "query", "string"
	case model.KResponse:
		h.holder["description"] = s.newLabel("R")
	case model.KPathItem:
		h.holder["x-label"] = s.newLabel("I")
	}
}

// ---------------------------------------------------------------------------
// classification (measured on the generated case, reported in the evidence)

type GraphClass struct {
	NDocs            int
	NRefs            int
	CrossDoc         bool // some $ref designates another document
	Chain2           bool // a $ref whose target is itself a $ref holder
	CrossChain       bool // such a chain crossing documents
	SecondHopFragOnl bool // cross-document chain whose 2nd hop is fragment-only
	SecondHopRel     bool // cross-document chain whose 2nd hop is a relative path
	BackToRoot       bool // a non-root document refers into the root
	Cyclic           bool
	CrossDocCycle    bool
	EscapedPointer   bool // some $ref fragment needs ~0/~1 or percent escapes
	PrefixDoc        bool // root.json2 in use
	Unfounded        bool // some element's $ref chain never reaches content
	WholeDoc         bool // a $ref without fragment
	NonSchemaCycle   bool // a cycle entered from a parameter/response/path item element
}

// Classify analyses a case with the model.
func Classify(c GraphCase) GraphClass {
	g := c.Graph()
	cl := GraphClass{NDocs: len(c.Docs)}
	_, cl.PrefixDoc = c.Docs["file:///w/a/root.json2"]
	var all []model.Elem
	docs := make([]string, 0, len(c.Docs))
	for u := range c.Docs {
		docs = append(docs, u)
	}
	sort.Strings(docs)
	for _, u := range docs {
		all = append(all, g.TopElements(u)...)
		if dm, isObj := g.Docs[u].(map[string]any); isObj {
			if _, isSchemaDoc := dm["title"]; isSchemaDoc {
				all = append(all, model.Elem{P: model.Pos{Doc: u}, K: model.KSchema})
			}
		} else if arr, isArr := g.Docs[u].([]any); isArr {
			for i := range arr {
				all = append(all, model.Elem{P: model.Pos{Doc: u, Ptr: "/" + strconv.Itoa(i)}, K: model.KSchema})
			}
		}
	}
	g.Walk(all, func(p model.Pos, k model.Kind, n any, isRef bool, ref string) {
		if !isRef {
			return
		}
		cl.NRefs++
		tp, err := model.Resolve(p.Doc, ref)
		if err != nil {
			return
		}
		if tp.Doc != p.Doc {
			cl.CrossDoc = true
			if tp.Doc == c.Root {
				cl.BackToRoot = true
			}
		}
		if tp.Ptr == "" {
			cl.WholeDoc = true
		}
		if strings.ContainsAny(ref, "~%") {
			cl.EscapedPointer = true
		}
		tn, err := g.Get(tp)
		if err != nil {
			return
		}
		if r2, ok := model.RefOf(tn); ok {
			cl.Chain2 = true
			if tp.Doc != p.Doc {
				cl.CrossChain = true
				if strings.HasPrefix(r2, "#") {
					cl.SecondHopFragOnl = true
				} else if !strings.Contains(r2, "://") {
					cl.SecondHopRel = true
				}
			}
		}
	})
	root := g.TopElements(c.Root)
	cl.Cyclic = !g.Acyclic(root)
	if cl.Cyclic {
		g.Walk(root, func(p model.Pos, k model.Kind, n any, isRef bool, ref string) {
			if isRef || cl.CrossDocCycle {
				return
			}
			if p.Doc != c.Root && g.OnCycle(p, k) {
				cl.CrossDocCycle = true
			}
		})
		for _, e := range root {
			if e.K != model.KSchema && g.ReachesCycle(e.P, e.K) {
				cl.NonSchemaCycle = true
			}
		}
	}
	for _, e := range root {
		if !g.WellFounded(e.P) {
			cl.Unfounded = true
		}
	}
	return cl
}

// Labels turns a classification into evidence labels.
func (cl GraphClass) Labels() []string {
	var out []string
	add := func(c bool, l string) {
		if c {
			out = append(out, l)
		}
	}
	out = append(out, fmt.Sprintf("docs=%d", cl.NDocs))
	add(cl.NRefs == 0, "no $ref")
	add(cl.NRefs >= 10, "refs>=10")
	add(cl.CrossDoc, "cross-document $ref")
	add(cl.Chain2, "chain>=2 hops")
	add(cl.CrossChain, "cross-document chain")
	add(cl.SecondHopFragOnl, "2nd hop fragment-only")
	add(cl.SecondHopRel, "2nd hop relative")
	add(cl.BackToRoot, "back reference into root")
	add(cl.Cyclic, "cyclic")
	add(cl.CrossDocCycle, "cycle outside root document")
	add(cl.NonSchemaCycle, "cycle entered from parameter/response/path item")
	add(cl.EscapedPointer, "escaped pointer")
	add(cl.PrefixDoc, "prefix-confusable document")
	add(cl.Unfounded, "unfounded element")
	add(cl.WholeDoc, "whole-document $ref")
	return out
}

// NonTrivial is the rule shared by the expansion properties.
func (cl GraphClass) NonTrivial() bool { return cl.CrossDoc || cl.Chain2 || cl.Cyclic }
