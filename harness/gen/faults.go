package gen

import (
	"encoding/json"
	"sort"
	"strings"

	"verif/model"

	"pgregory.net/rapid"
)

// Scalars is planted in the root document so that `$ref`s can be redirected to
// targets that are not objects.
var Scalars = map[string]any{"s": "str", "n": 1.5, "b": true, "a": []any{1.0, map[string]any{"title": "in-array"}}}

// AbsentMembers: keywords a target most probably does not carry; in the typed model they are nil pointers, nil
// unions, nil maps and nil slices respectively.
var AbsentMembers = []string{"/not", "/additionalProperties", "/items", "/additionalItems", "/allOf", "/anyOf", "/oneOf", "/required", "/enum",
	"/properties", "/patternProperties", "/definitions", "/dependencies", "/type", "/externalDocs", "/xml", "/tags", "/parameters", "/schema", "/headers", "/examples"}

// OddIndexTails are appended to a healthy pointer to make it dangling through an index-like token.
var OddIndexTails = []string{"/items/-1", "/allOf/-1", "/-1", "/-", "/items/-", "/items/99999999999999999999", "/allOf/18446744073709551616",
	"/enum/-1", "/required/-1", "/parameters/-1", "/type/-1", "/anyOf/-2", "/oneOf/-", "/items/-9223372036854775808", "/tags/-1", "/schemes/-1"}

// OddIndexes are index-like tokens that designate nothing in any list.
var OddIndexes = []string{"/-1", "/-", "/-2", "/99999999999999999999", "/-9223372036854775808", "/18446744073709551616", "/-1/title"}

// ListMembers returns the pointers (relative to n, at most depth members deep, not through a `$ref` holder)
// of the members that are lists or are called "items".
func ListMembers(n any, at string, depth int, acc []string) []string {
	m, ok := n.(map[string]any)
	if !ok || depth == 0 || len(acc) > 400 {
		return acc
	}
	if _, isRef := m["$ref"].(string); isRef {
		return acc
	}
	keys := make([]string, 0, len(m))
	for k := range m {
		keys = append(keys, k)
	}
	sort.Strings(keys)
	for _, k := range keys {
		if _, isArr := m[k].([]any); isArr || k == "items" {
			acc = append(acc, at+"/"+model.EscTok(k))
		}
		acc = ListMembers(m[k], at+"/"+model.EscTok(k), depth-1, acc)
	}
	return acc
}

// Break injects faults into a well-formed graph: each `$ref` is, with
// probability pct/1000, rewritten to a missing pointer, a missing document or a
// target that is a string, number, boolean or array; each non-root document is
// refused by the loader with probability refusePct/100.
func Break(t *rapid.T, c GraphCase, permille int, refusePct int) (GraphCase, []string) {
	out := GraphCase{Root: c.Root, Docs: map[string]string{}}
	// pointers that designate something in SOME document: written fragment-only in another document they
	// are dangling there unless that document happens to have the same member (the model decides)
	foreign := map[model.Kind][]string{}
	kindAt := map[model.Pos]model.Kind{}
	g := c.Graph()
	{
		var all []string
		for u := range c.Docs {
			all = append(all, u)
		}
		sort.Strings(all)
		for _, u := range all {
			g.Walk(g.TopElements(u), func(p model.Pos, k model.Kind, n any, isRef bool, ref string) {
				kindAt[p] = k
				if len(foreign[k]) < 100 && p.Ptr != "" { // (not the whole document: "" written in the root would designate the root itself)
					foreign[k] = append(foreign[k], fragmentOf(p.Ptr, false))
				}
			})
		}
	}
	urls := make([]string, 0, len(c.Docs))
	for u := range c.Docs {
		urls = append(urls, u)
	}
	sort.Strings(urls)
	// a third of the broken graphs carry one kind of fault only, densely: every kind then has cases of its own
	focus := -1
	if Pct(t, "focused faults", 33) {
		focus = Uniform(t, "focus", 16)
		permille = permille*4 + 100
	}
	for _, u := range urls {
		var v any
		_ = json.Unmarshal([]byte(c.Docs[u]), &v)
		var walk func(n any)
		walk = func(n any) {
			switch m := n.(type) {
			case map[string]any:
				if r, ok := m["$ref"].(string); ok {
					if Permille(t, "break", permille) {
						kind := focus
						if kind < 0 {
							kind = Uniform(t, "fault", 16)
						}
						switch kind {
						case 0:
							m["$ref"] = r + "/nowhere"
						case 1:
							m["$ref"] = "missing.json#/definitions/x"
						case 2:
							m["$ref"] = c.Root + "#/info/title"
						case 3:
							m["$ref"] = c.Root + "#/x-scalars/n"
						case 4:
							m["$ref"] = c.Root + "#/x-scalars/b"
						case 5:
							m["$ref"] = c.Root + "#/x-scalars/a"
						case 6:
							m["$ref"] = "#/definitions/no~1such~0name"
						case 7:
							m["$ref"] = c.Root + "#/x-scalars/a/7"
						case 12, 13:
							// the same pointer text as somewhere else (e.g. as a $ref of the root that is known to be
							// circular), but in a document where it may designate nothing
							// (of the kind the original $ref designates, so that the graph stays well-kinded)
							if tp, err := model.Resolve(u, r); err == nil {
								if k, known := kindAt[tp]; known && len(foreign[k]) > 0 {
									m["$ref"] = foreign[k][Uniform(t, "foreign", len(foreign[k]))]
								}
							}
						case 14, 15:
							// tokens that look like array indexes but designate nothing under any reading: negative,
							// the past-the-end "-", beyond every integer type (typed lookups parse them themselves)
							if strings.Contains(r, "#") {
								m["$ref"] = r + OddIndexTails[Uniform(t, "oddindex", len(OddIndexTails))]
								// preferably below a member that the target really has and that is (or may be) a list
								if tp, err := model.Resolve(u, r); err == nil && Pct(t, "aimed", 70) {
									if tn, err := g.Get(tp); err == nil {
										if lists := ListMembers(tn, "", 3, nil); len(lists) > 0 {
											m["$ref"] = r + fragmentOf(lists[Uniform(t, "list", len(lists))]+OddIndexes[Uniform(t, "idx", len(OddIndexes))], false)[1:] // (member names percent-encoded as a fragment needs)
										}
									}
								}
							}
						case 8, 9, 10, 11:
							// a known keyword that the target most probably does not carry: on a typed
							// root the pointer lands on an unset member (if the target does carry it, the
							// $ref is simply a healthy one - the model decides)
							if strings.Contains(r, "#") {
								am := AbsentMembers[Uniform(t, "absent", len(AbsentMembers))]
								carried := false
								if tp, err := model.Resolve(u, r); err == nil {
									if tn, err := g.Get(tp); err == nil {
										if tm, ok := tn.(map[string]any); ok {
											_, carried = tm[am[1:]]
										}
									}
								}
								// (a member the target does carry would make a healthy $ref to something that is not an
								// element - a map of schemas, a list: not what this fault is about)
								if !carried {
									m["$ref"] = r + am
								}
							}
						}
					}
				}
				keys := make([]string, 0, len(m))
				for k := range m {
					keys = append(keys, k)
				}
				sort.Strings(keys)
				for _, k := range keys {
					walk(m[k])
				}
			case []any:
				for _, e := range m {
					walk(e)
				}
			}
		}
		walk(v)
		if u == c.Root {
			if m, ok := v.(map[string]any); ok {
				m["x-scalars"] = Scalars
			}
		}
		b, _ := json.Marshal(v)
		out.Docs[u] = string(b)
	}
	var refused []string
	for _, u := range urls {
		if u != c.Root && Pct(t, "refuse", refusePct) {
			refused = append(refused, u)
		}
	}
	return out, refused
}
