package gen

import "pgregory.net/rapid"

// rapid's IntRange/SampledFrom are deliberately biased towards small values
// (P[IntRange(0,999) < 40] is about 0.5). Probabilities that are meant as
// probabilities are therefore drawn from fair bits.

var bits10 = rapid.Custom(func(t *rapid.T) int {
	v := 0
	for i := 0; i < 10; i++ {
		if rapid.Bool().Draw(t, "bit") {
			v |= 1 << i
		}
	}
	return v
})

// Permille is true with probability p/1000. All-zero bits (what shrinking
// converges to) mean "false".
func Permille(t *rapid.T, label string, p int) bool {
	if p <= 0 {
		return false
	}
	return bits10.Draw(t, label) >= 1024-(p*1024+500)/1000
}

// Pct is true with probability p/100.
func Pct(t *rapid.T, label string, p int) bool { return Permille(t, label, p*10) }

// Uniform draws an index in [0,n) (uniform up to a negligible modulo bias).
func Uniform(t *rapid.T, label string, n int) int {
	if n <= 1 {
		return 0
	}
	return int(bits20.Draw(t, label)) % n
}

var bits20 = rapid.Custom(func(t *rapid.T) int {
	v := 0
	for i := 0; i < 20; i++ {
		if rapid.Bool().Draw(t, "bit") {
			v |= 1 << i
		}
	}
	return v
})
