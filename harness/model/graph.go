// Package model is the reference model of `$ref` semantics used as the oracle
// by the expansion / resolution properties. It is deliberately independent of
// the implementation under test: documents are plain decoded JSON, a `$ref` is
// resolved with RFC 3986 (net/url.ResolveReference) against the URL of the
// document that textually contains it, the fragment is evaluated by a small
// RFC 6901 evaluator, and the "meaning" of a position is its possibly infinite
// unfolding, compared co-inductively (bisimulation).
package model

import (
	"encoding/json"
	"errors"
	"fmt"
	"net/url"
	"sort"
	"strconv"
	"strings"
)

type Kind int

const (
	KSchema Kind = iota
	KParam
	KResponse
	KPathItem
)

func (k Kind) String() string { return [...]string{"schema", "parameter", "response", "pathitem"}[k] }

// Pos designates a node: canonical document URL (no fragment) + JSON pointer
// (tokens escaped with ~0 ~1, not percent-encoded).
type Pos struct {
	Doc string `json:"doc"`
	Ptr string `json:"ptr"`
}

func (p Pos) String() string { return p.Doc + "#" + p.Ptr }

func EscTok(s string) string {
	s = strings.ReplaceAll(s, "~", "~0")
	return strings.ReplaceAll(s, "/", "~1")
}

func UnescTok(s string) string {
	s = strings.ReplaceAll(s, "~1", "/")
	return strings.ReplaceAll(s, "~0", "~")
}

func (p Pos) Child(toks ...string) Pos {
	q := p
	for _, t := range toks {
		q.Ptr += "/" + EscTok(t)
	}
	return q
}

// Tokens returns the unescaped tokens of the pointer.
func (p Pos) Tokens() []string {
	if p.Ptr == "" {
		return nil
	}
	parts := strings.Split(p.Ptr, "/")[1:]
	for i := range parts {
		parts[i] = UnescTok(parts[i])
	}
	return parts
}

// Graph is a set of documents plus the faults injected into the loader.
type Graph struct {
	Docs    map[string]any  // url -> decoded JSON
	Refused map[string]bool // urls the loader refuses to serve
}

func LoadGraph(docs map[string]string) (*Graph, error) {
	g := &Graph{Docs: map[string]any{}, Refused: map[string]bool{}}
	for u, s := range docs {
		var v any
		if err := json.Unmarshal([]byte(s), &v); err != nil {
			return nil, fmt.Errorf("document %s: %w", u, err)
		}
		g.Docs[u] = v
	}
	return g, nil
}

// With returns a copy of g in which document u is replaced by v.
func (g *Graph) With(u string, v any) *Graph {
	n := &Graph{Docs: map[string]any{}, Refused: g.Refused}
	for k, d := range g.Docs {
		n.Docs[k] = d
	}
	n.Docs[u] = v
	return n
}

var (
	ErrDangling  = errors.New("dangling")
	ErrUnfounded = errors.New("unfounded")
)

// Get evaluates the pointer (RFC 6901) in the document.
func (g *Graph) Get(p Pos) (any, error) {
	if g.Refused[p.Doc] {
		return nil, fmt.Errorf("%w: loader refuses %s", ErrDangling, p.Doc)
	}
	d, ok := g.Docs[p.Doc]
	if !ok {
		return nil, fmt.Errorf("%w: no document %s", ErrDangling, p.Doc)
	}
	return GetIn(d, p.Ptr)
}

// GetIn evaluates a JSON pointer (RFC 6901) on decoded JSON.
func GetIn(d any, ptr string) (any, error) {
	if ptr == "" {
		return d, nil
	}
	if !strings.HasPrefix(ptr, "/") {
		return nil, fmt.Errorf("%w: pointer %q does not start with /", ErrDangling, ptr)
	}
	cur := d
	for _, t := range strings.Split(ptr, "/")[1:] {
		t = UnescTok(t)
		switch c := cur.(type) {
		case map[string]any:
			n, ok := c[t]
			if !ok {
				return nil, fmt.Errorf("%w: no member %q (pointer %q)", ErrDangling, t, ptr)
			}
			cur = n
		case []any:
			i, err := strconv.Atoi(t)
			if err != nil || i < 0 || i >= len(c) || (len(t) > 1 && t[0] == '0') {
				return nil, fmt.Errorf("%w: bad index %q (pointer %q)", ErrDangling, t, ptr)
			}
			cur = c[i]
		default:
			return nil, fmt.Errorf("%w: scalar met at %q (pointer %q)", ErrDangling, t, ptr)
		}
	}
	return cur, nil
}

// Resolve is RFC 3986 reference resolution of ref against the URL of the
// document that contains it; the fragment becomes the pointer.
func Resolve(holderDoc, ref string) (Pos, error) {
	b, err := url.Parse(holderDoc)
	if err != nil {
		return Pos{}, err
	}
	r, err := url.Parse(ref)
	if err != nil {
		return Pos{}, err
	}
	t := b.ResolveReference(r)
	frag := t.Fragment
	t.Fragment = ""
	t.RawFragment = ""
	// scheme-based normalisation (RFC 3986 6.2.2.1, 6.2.3): host in lower case, default port dropped
	t.Host = strings.ToLower(t.Host)
	if (t.Scheme == "http" && strings.HasSuffix(t.Host, ":80")) || (t.Scheme == "https" && strings.HasSuffix(t.Host, ":443")) {
		t.Host = t.Host[:strings.LastIndex(t.Host, ":")]
	}
	if t.Scheme == "file" {
		// the query of a file location is irrelevant (normalizeBase documents it; C11 states it for root locations)
		t.RawQuery, t.ForceQuery = "", false
	}
	return Pos{Doc: t.String(), Ptr: frag}, nil
}

// RefOf tells whether node n is a `$ref` holder.
func RefOf(n any) (string, bool) {
	m, ok := n.(map[string]any)
	if !ok {
		return "", false
	}
	r, ok := m["$ref"].(string)
	return r, ok
}

// Hop follows one `$ref` found at holder. healthy is false when the reference
// cannot be resolved to an object (missing document, refused document, missing
// pointer target, target that is a string, number, boolean, null or array).
func (g *Graph) Hop(holder Pos, ref string) (Pos, bool) {
	tp, err := Resolve(holder.Doc, ref)
	if err != nil {
		return tp, false
	}
	n, err := g.Get(tp)
	if err != nil {
		return tp, false
	}
	if _, isObj := n.(map[string]any); !isObj {
		return tp, false
	}
	return tp, true
}

// Deref follows `$ref` holders (siblings ignored) until content and returns the
// position and node of the content.
func (g *Graph) Deref(p Pos) (Pos, any, error) {
	seen := map[Pos]bool{}
	for {
		if seen[p] {
			return p, nil, fmt.Errorf("%w: pure $ref cycle at %s", ErrUnfounded, p)
		}
		seen[p] = true
		n, err := g.Get(p)
		if err != nil {
			return p, nil, err
		}
		r, ok := RefOf(n)
		if !ok {
			return p, n, nil
		}
		q, err := Resolve(p.Doc, r)
		if err != nil {
			return p, nil, fmt.Errorf("%w: %v", ErrDangling, err)
		}
		p = q
	}
}

type ChildRef struct {
	Toks []string
	K    Kind
}

var (
	SchemaMapKW = []string{"properties", "patternProperties", "definitions", "dependencies"}
	SchemaArrKW = []string{"allOf", "anyOf", "oneOf"}
	SchemaOneKW = []string{"not", "additionalProperties", "additionalItems"}
	OpNames     = []string{"get", "put", "post", "delete", "options", "head", "patch"}
)

func SortedKeys(m map[string]any) []string {
	ks := make([]string, 0, len(m))
	for k := range m {
		ks = append(ks, k)
	}
	sort.Strings(ks)
	return ks
}

// Children lists the reference-bearing child positions of a content node.
func Children(k Kind, n any) []ChildRef {
	m, ok := n.(map[string]any)
	if !ok {
		return nil
	}
	var out []ChildRef
	switch k {
	case KSchema:
		for _, kw := range SchemaMapKW {
			if mm, ok := m[kw].(map[string]any); ok {
				for _, name := range SortedKeys(mm) {
					if _, isObj := mm[name].(map[string]any); isObj {
						out = append(out, ChildRef{[]string{kw, name}, KSchema})
					}
				}
			}
		}
		for _, kw := range SchemaArrKW {
			if arr, ok := m[kw].([]any); ok {
				for i := range arr {
					if _, isObj := arr[i].(map[string]any); isObj {
						out = append(out, ChildRef{[]string{kw, strconv.Itoa(i)}, KSchema})
					}
				}
			}
		}
		for _, kw := range SchemaOneKW {
			if _, ok := m[kw].(map[string]any); ok {
				out = append(out, ChildRef{[]string{kw}, KSchema})
			}
		}
		switch it := m["items"].(type) {
		case map[string]any:
			out = append(out, ChildRef{[]string{"items"}, KSchema})
		case []any:
			for i := range it {
				if _, isObj := it[i].(map[string]any); isObj {
					out = append(out, ChildRef{[]string{"items", strconv.Itoa(i)}, KSchema})
				}
			}
		}
	case KParam, KResponse:
		if _, ok := m["schema"].(map[string]any); ok {
			out = append(out, ChildRef{[]string{"schema"}, KSchema})
		}
	case KPathItem:
		if arr, ok := m["parameters"].([]any); ok {
			for i := range arr {
				out = append(out, ChildRef{[]string{"parameters", strconv.Itoa(i)}, KParam})
			}
		}
		for _, opn := range OpNames {
			op, ok := m[opn].(map[string]any)
			if !ok {
				continue
			}
			if arr, ok := op["parameters"].([]any); ok {
				for i := range arr {
					out = append(out, ChildRef{[]string{opn, "parameters", strconv.Itoa(i)}, KParam})
				}
			}
			if rs, ok := op["responses"].(map[string]any); ok {
				for _, code := range SortedKeys(rs) {
					if strings.HasPrefix(code, "x-") {
						continue
					}
					if _, isObj := rs[code].(map[string]any); isObj {
						out = append(out, ChildRef{[]string{opn, "responses", code}, KResponse})
					}
				}
			}
		}
	}
	return out
}

func Clone(n any) any {
	b, _ := json.Marshal(n)
	var c any
	_ = json.Unmarshal(b, &c)
	return c
}

// LocalContent returns a copy of n with every child position blanked.
func LocalContent(k Kind, n any) any {
	c := Clone(n)
	for _, ch := range Children(k, n) {
		cur := c
		for i, t := range ch.Toks {
			last := i == len(ch.Toks)-1
			switch cc := cur.(type) {
			case map[string]any:
				if last {
					cc[t] = "<child>"
				} else {
					cur = cc[t]
				}
			case []any:
				idx, _ := strconv.Atoi(t)
				if last {
					cc[idx] = "<child>"
				} else {
					cur = cc[idx]
				}
			}
		}
	}
	return c
}

func JSONEq(a, b any) bool {
	x, _ := json.Marshal(a)
	y, _ := json.Marshal(b)
	return string(x) == string(y)
}

func JS(v any) string {
	b, _ := json.Marshal(v)
	return string(b)
}

type pair struct{ a, b Pos }

// Bisim checks that position pa of ga and position pb of gb denote the same
// (possibly infinite) dereferenced tree. It terminates because the number of
// pairs of content positions is finite.
func Bisim(ga, gb *Graph, pa, pb Pos, k Kind) error {
	return bisim(ga, gb, pa, pb, k, map[pair]bool{})
}

// BisimShared lets several calls share the memo table (same two graphs).
type BisimMemo map[pair]bool

func BisimMemoized(ga, gb *Graph, pa, pb Pos, k Kind, memo BisimMemo) error {
	return bisim(ga, gb, pa, pb, k, memo)
}

func bisim(ga, gb *Graph, pa, pb Pos, k Kind, visited map[pair]bool) error {
	ca, na, err := ga.Deref(pa)
	if err != nil {
		if errors.Is(err, ErrUnfounded) {
			// a position whose own $ref chain never reaches content denotes nothing: exempt
			return nil
		}
		return fmt.Errorf("input side at %s: %w", pa, err)
	}
	cb, nb, err := gb.Deref(pb)
	if err != nil {
		return fmt.Errorf("output side at %s (input %s => %s): %w", pb, pa, ca, err)
	}
	key := pair{ca, cb}
	if visited[key] {
		return nil
	}
	visited[key] = true
	la, lb := LocalContent(k, na), LocalContent(k, nb)
	if !JSONEq(la, lb) {
		return fmt.Errorf("content differs: input %s = %s ; output %s = %s", ca, JS(la), cb, JS(lb))
	}
	for _, ch := range Children(k, na) {
		if err := bisim(ga, gb, ca.Child(ch.Toks...), cb.Child(ch.Toks...), ch.K, visited); err != nil {
			return err
		}
	}
	return nil
}

// Elem is a referable top-level element of a document.
type Elem struct {
	P Pos
	K Kind
}

// TopElements lists definitions, parameters, responses and path items of doc.
func (g *Graph) TopElements(doc string) []Elem {
	d, ok := g.Docs[doc].(map[string]any)
	if !ok {
		return nil
	}
	var out []Elem
	base := Pos{Doc: doc}
	for _, sec := range []struct {
		name string
		k    Kind
	}{{"definitions", KSchema}, {"parameters", KParam}, {"responses", KResponse}} {
		if m, ok := d[sec.name].(map[string]any); ok {
			for _, name := range SortedKeys(m) {
				out = append(out, Elem{base.Child(sec.name, name), sec.k})
			}
		}
	}
	if m, ok := d["paths"].(map[string]any); ok {
		for _, name := range SortedKeys(m) {
			if strings.HasPrefix(name, "x-") {
				continue
			}
			out = append(out, Elem{base.Child("paths", name), KPathItem})
		}
	}
	return out
}

// RefHolder is a `$ref` found at a reference-bearing position.
type RefHolder struct {
	P   Pos
	K   Kind
	Ref string
}

// RefsBelow lists the `$ref` holders at reference-bearing positions of the
// content below p, without crossing any of them.
func (g *Graph) RefsBelow(p Pos, k Kind) []RefHolder {
	var out []RefHolder
	var walk func(q Pos, k Kind)
	walk = func(q Pos, k Kind) {
		n, err := g.Get(q)
		if err != nil {
			return
		}
		if r, ok := RefOf(n); ok {
			out = append(out, RefHolder{q, k, r})
			return
		}
		for _, ch := range Children(k, n) {
			walk(q.Child(ch.Toks...), ch.K)
		}
	}
	walk(p, k)
	return out
}

// succ: positions designated by the refs found under p's content.
func (g *Graph) succ(p Pos, k Kind) []Elem {
	var res []Elem
	for _, h := range g.RefsBelow(p, k) {
		if t, err := Resolve(h.P.Doc, h.Ref); err == nil {
			res = append(res, Elem{t, h.K})
		}
	}
	return res
}

// OnCycle: does p reach itself in the graph "content below P holds a `$ref`
// resolving to Q"?
func (g *Graph) OnCycle(p Pos, k Kind) bool {
	seen := map[Pos]bool{}
	stack := append([]Elem{}, g.succ(p, k)...)
	for len(stack) > 0 {
		c := stack[len(stack)-1]
		stack = stack[:len(stack)-1]
		if c.P == p {
			return true
		}
		if seen[c.P] {
			continue
		}
		seen[c.P] = true
		stack = append(stack, g.succ(c.P, c.K)...)
	}
	return false
}

// ReachesCycle: does unfolding from p meet a position that lies on a cycle?
func (g *Graph) ReachesCycle(p Pos, k Kind) bool {
	seen := map[Pos]bool{}
	stack := []Elem{{p, k}}
	for len(stack) > 0 {
		c := stack[len(stack)-1]
		stack = stack[:len(stack)-1]
		if seen[c.P] {
			continue
		}
		seen[c.P] = true
		if g.OnCycle(c.P, c.K) {
			return true
		}
		stack = append(stack, g.succ(c.P, c.K)...)
	}
	return false
}

// Walk visits every position reachable from the given elements by unfolding
// (following healthy `$ref`s, each position once). fn receives holders too.
func (g *Graph) Walk(start []Elem, fn func(p Pos, k Kind, n any, isRef bool, ref string)) {
	seen := map[Pos]bool{}
	var walk func(p Pos, k Kind)
	walk = func(p Pos, k Kind) {
		if seen[p] {
			return
		}
		seen[p] = true
		n, err := g.Get(p)
		if err != nil {
			return
		}
		if r, ok := RefOf(n); ok {
			fn(p, k, n, true, r)
			if tp, healthy := g.Hop(p, r); healthy {
				walk(tp, k)
			}
			return
		}
		fn(p, k, n, false, "")
		for _, ch := range Children(k, n) {
			walk(p.Child(ch.Toks...), ch.K)
		}
	}
	for _, e := range start {
		walk(e.P, e.K)
	}
}

// ReachableDocs is the set of documents a full expansion of root has to read.
func (g *Graph) ReachableDocs(start []Elem) map[string]bool {
	docs := map[string]bool{}
	g.Walk(start, func(p Pos, k Kind, n any, isRef bool, ref string) {
		if isRef {
			if tp, err := Resolve(p.Doc, ref); err == nil {
				docs[tp.Doc] = true
			}
		}
	})
	return docs
}

// Acyclic reports whether no position reachable from start lies on a cycle.
func (g *Graph) Acyclic(start []Elem) bool {
	acyclic := true
	// colour DFS over "ref target" edges
	const (
		white = 0
		grey  = 1
		black = 2
	)
	colour := map[Pos]int{}
	var visit func(p Pos, k Kind)
	visit = func(p Pos, k Kind) {
		if !acyclic {
			return
		}
		switch colour[p] {
		case grey:
			acyclic = false
			return
		case black:
			return
		}
		colour[p] = grey
		for _, s := range g.succ(p, k) {
			visit(s.P, s.K)
		}
		colour[p] = black
	}
	for _, e := range start {
		visit(e.P, e.K)
	}
	return acyclic
}

// UnfoldSize is the number of nodes visited when every `$ref` is followed
// unless its target is already on the current path (the loop variant that
// bounds the work of an expansion). It is capped at limit.
func (g *Graph) UnfoldSize(p Pos, k Kind, limit int) int {
	count := 0
	stack := map[Pos]bool{}
	var walk func(q Pos, k Kind)
	walk = func(q Pos, k Kind) {
		if count >= limit {
			return
		}
		count++
		n, err := g.Get(q)
		if err != nil {
			return
		}
		if r, ok := RefOf(n); ok {
			tp, healthy := g.Hop(q, r)
			if !healthy || stack[tp] {
				return
			}
			stack[tp] = true
			walk(tp, k)
			delete(stack, tp)
			return
		}
		for _, ch := range Children(k, n) {
			walk(q.Child(ch.Toks...), ch.K)
		}
	}
	walk(p, k)
	return count
}

// ReachDangling: does the unfolding from p (path-cut on cycles) meet a `$ref`
// that cannot be resolved to an object? Returns the first one found.
func (g *Graph) ReachDangling(p Pos, k Kind) (RefHolder, bool) {
	budget := 200000
	stack := map[Pos]bool{}
	var found RefHolder
	var walk func(q Pos, k Kind) bool
	walk = func(q Pos, k Kind) bool {
		budget--
		if budget < 0 {
			return false
		}
		n, err := g.Get(q)
		if err != nil {
			return false
		}
		if r, ok := RefOf(n); ok {
			tp, healthy := g.Hop(q, r)
			if !healthy {
				found = RefHolder{q, k, r}
				return true
			}
			if stack[tp] {
				return false
			}
			stack[tp] = true
			d := walk(tp, k)
			delete(stack, tp)
			return d
		}
		for _, ch := range Children(k, n) {
			if walk(q.Child(ch.Toks...), ch.K) {
				return true
			}
		}
		return false
	}
	ok := walk(p, k)
	return found, ok
}

// WellFounded: p's own `$ref` chain reaches content.
func (g *Graph) WellFounded(p Pos) bool {
	_, _, err := g.Deref(p)
	return err == nil
}

// GetThrough evaluates the pointer of p token by token, dereferencing every
// `$ref` holder met on the way (including the final node): it maps a position
// of an expanded document back to the content position it was expanded from.
func (g *Graph) GetThrough(p Pos) (Pos, any, error) {
	cur, n, err := g.Deref(Pos{Doc: p.Doc})
	if err != nil {
		return cur, nil, err
	}
	for _, tok := range p.Tokens() {
		cur, n, err = g.Deref(cur.Child(tok))
		if err != nil {
			return cur, nil, err
		}
	}
	return cur, n, nil
}
