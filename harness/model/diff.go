package model

import (
	"fmt"
	"reflect"
	"sort"
	"strconv"
)

// DiffAtom is one elementary difference between two JSON values.
type DiffAtom struct {
	Path string // JSON pointer into the value
	Kind string // LOST (in a, not in b), INVENTED (in b, not in a), CHANGED
	A, B any
}

func (d DiffAtom) String() string {
	switch d.Kind {
	case "LOST":
		return fmt.Sprintf("LOST %s (was %s)", d.Path, JS(d.A))
	case "INVENTED":
		return fmt.Sprintf("INVENTED %s = %s", d.Path, JS(d.B))
	}
	return fmt.Sprintf("CHANGED %s: %s -> %s", d.Path, JS(d.A), JS(d.B))
}

// Diff compares two decoded JSON values (numbers as float64, object member
// order irrelevant) and lists the differences.
func Diff(a, b any) []DiffAtom {
	var out []DiffAtom
	diff(a, b, "", &out)
	return out
}

func diff(a, b any, path string, out *[]DiffAtom) {
	switch x := a.(type) {
	case map[string]any:
		y, ok := b.(map[string]any)
		if !ok {
			*out = append(*out, DiffAtom{path, "CHANGED", a, b})
			return
		}
		keys := map[string]bool{}
		for k := range x {
			keys[k] = true
		}
		for k := range y {
			keys[k] = true
		}
		ks := make([]string, 0, len(keys))
		for k := range keys {
			ks = append(ks, k)
		}
		sort.Strings(ks)
		for _, k := range ks {
			xv, inx := x[k]
			yv, iny := y[k]
			p := path + "/" + EscTok(k)
			switch {
			case inx && !iny:
				*out = append(*out, DiffAtom{p, "LOST", xv, nil})
			case !inx && iny:
				*out = append(*out, DiffAtom{p, "INVENTED", nil, yv})
			default:
				diff(xv, yv, p, out)
			}
		}
	case []any:
		y, ok := b.([]any)
		if !ok || len(x) != len(y) {
			*out = append(*out, DiffAtom{path, "CHANGED", a, b})
			return
		}
		for i := range x {
			diff(x[i], y[i], path+"/"+strconv.Itoa(i), out)
		}
	default:
		if !reflect.DeepEqual(a, b) {
			*out = append(*out, DiffAtom{path, "CHANGED", a, b})
		}
	}
}

// LastToken returns the last (unescaped) token of a pointer path.
func LastToken(path string) string {
	p := Pos{Ptr: path}
	t := p.Tokens()
	if len(t) == 0 {
		return ""
	}
	return t[len(t)-1]
}
