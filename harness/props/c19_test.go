package props

// C19 — Round trip and expansion keep a valid Swagger 2.0 document valid.
//
// The validity oracle is independent of the package under test: python
// jsonschema's Draft4Validator against /repo/schemas/v2/schema.json.

import (
	"bufio"
	"encoding/json"
	"fmt"
	"io"
	"os"
	"os/exec"
	"path/filepath"
	"strings"
	"sync"
	"testing"

	"github.com/go-openapi/spec"
	"pgregory.net/rapid"

	"verif/gen"
	"verif/model"
	"verif/vstat"
)

type verr struct {
	Path      string `json:"path"`
	Message   string `json:"message"`
	Validator string `json:"validator"`
}

type vanswer struct {
	Valid  bool   `json:"valid"`
	Errors []verr `json:"errors"`
}

type pyValidator struct {
	mu  sync.Mutex
	cmd *exec.Cmd
	in  io.WriteCloser
	out *bufio.Reader
}

var (
	pyOnce sync.Once
	pyVal  *pyValidator
	pyErr  error
)

func validator() (*pyValidator, error) {
	pyOnce.Do(func() {
		root := os.Getenv("VERIF_ROOT")
		if root == "" {
			root = "/verif"
		}
		repo := os.Getenv("VERIF_REPO")
		if repo == "" {
			repo = "/repo"
		}
		cmd := exec.Command("python3-vt", filepath.Join(root, "harness", "pyval", "validate.py"), repo)
		in, err := cmd.StdinPipe()
		if err != nil {
			pyErr = err
			return
		}
		out, err := cmd.StdoutPipe()
		if err != nil {
			pyErr = err
			return
		}
		cmd.Stderr = os.Stderr
		if err := cmd.Start(); err != nil {
			pyErr = err
			return
		}
		pyVal = &pyValidator{cmd: cmd, in: in, out: bufio.NewReaderSize(out, 1<<20)}
	})
	return pyVal, pyErr
}

func (p *pyValidator) validate(doc []byte) (vanswer, error) {
	p.mu.Lock()
	defer p.mu.Unlock()
	var compact any
	if err := json.Unmarshal(doc, &compact); err != nil {
		return vanswer{}, err
	}
	line := append(mustJSON(compact), '\n')
	if _, err := p.in.Write(line); err != nil {
		return vanswer{}, err
	}
	ans, err := p.out.ReadBytes('\n')
	if err != nil {
		return vanswer{}, err
	}
	var a vanswer
	if err := json.Unmarshal(ans, &a); err != nil {
		return vanswer{}, err
	}
	return a, nil
}

type c19Case struct {
	Doc string `json:"doc"`
}

type c19Info struct {
	inputValid bool
	expanded   bool
	reasons    []string
}

// explainInvalid decides whether the invalidity of out (derived from the valid document in) is entirely
// explained by known finding K5: the empty required strings that the encoders dropped are put back, and the
// patched document is validated again. Anything that remains invalid then is a violation.
func explainInvalid(f *vstat.Failure, py *pyValidator, what string, in, out any, ans vanswer) {
	patched := model.Clone(out)
	var k5 []model.DiffAtom
	for _, a := range model.Diff(in, out) {
		if a.Kind == "LOST" {
			if s, ok := a.A.(string); ok && s == "" && k5Members[model.LastToken(a.Path)] {
				k5 = append(k5, a)
				toks := (model.Pos{Ptr: a.Path}).Tokens()
				parent, err := model.GetIn(patched, a.Path[:strings.LastIndex(a.Path, "/")])
				if m, ok := parent.(map[string]any); ok && err == nil {
					m[toks[len(toks)-1]] = ""
				}
			}
		}
	}
	if len(k5) > 0 {
		if pa, err := py.validate(mustJSON(patched)); err == nil && pa.Valid {
			for _, a := range k5 {
				f.AddKnown("K5", "BECAME-INVALID", a.Path, "%s: no longer valid because the required member %s, whose value is the empty string, was dropped", what, a.Path)
			}
			return
		} else if err == nil {
			ans = pa
		}
	}
	for _, e := range ans.Errors {
		f.Add("BECAME-INVALID", e.Path, "%s: no longer valid at %s: %s", what, e.Path, e.Message)
	}
	if len(ans.Errors) == 0 {
		f.Add("BECAME-INVALID", "", "%s: no longer valid", what)
	}
}

func hasEmptyK5Member(v any) bool {
	switch x := v.(type) {
	case map[string]any:
		for k, e := range x {
			if s, ok := e.(string); ok && s == "" && k5Members[k] {
				return true
			}
			if hasEmptyK5Member(e) {
				return true
			}
		}
	case []any:
		for _, e := range x {
			if hasEmptyK5Member(e) {
				return true
			}
		}
	}
	return false
}

func oracleC19(c c19Case) (*vstat.Failure, c19Info) {
	f := &vstat.Failure{}
	var info c19Info
	py, err := validator()
	if err != nil {
		f.Add("HARNESS", "", "validator not available: %v", err)
		return f, info
	}
	ans, err := py.validate([]byte(c.Doc))
	if err != nil {
		f.Add("HARNESS", "", "validator: %v", err)
		return f, info
	}
	if !ans.Valid {
		for _, e := range ans.Errors {
			info.reasons = append(info.reasons, e.Path+": "+e.Message)
		}
		return f, info // outside the domain (generator health is checked by the caller)
	}
	info.inputValid = true
	var in any
	_ = json.Unmarshal([]byte(c.Doc), &in)
	guard(f, "roundtrip", func() {
		var sw spec.Swagger
		if err := json.Unmarshal([]byte(c.Doc), &sw); err != nil {
			f.Add("DECODE-ERROR", "", "a schema-valid document does not decode: %v", err)
			return
		}
		b, err := json.Marshal(&sw)
		if err != nil {
			f.Add("ENCODE-ERROR", "", "a decoded schema-valid document does not encode: %v", err)
			return
		}
		ans, err := py.validate(b)
		if err != nil {
			f.Add("HARNESS", "", "validator: %v", err)
			return
		}
		if !ans.Valid {
			var out any
			_ = json.Unmarshal(b, &out)
			explainInvalid(f, py, "re-encoding after a decode", in, out, ans)
			return
		}
		if hasEmptyK5Member(in) {
			return // empty required strings (K5 steering): the expansion half is checked on the other documents
		}
		if !strings.Contains(c.Doc, `"$ref"`) {
			return
		}
		// expansion (all $refs are local and well-founded by construction; an unfounded element exempts the case)
		g := gen.GraphCase{Root: gen.RootURL, Docs: map[string]string{gen.RootURL: c.Doc}}
		mg := g.Graph()
		for _, el := range mg.TopElements(g.Root) {
			if !mg.WellFounded(el.P) {
				return
			}
		}
		run := runExpandSpec(g, nil, spec.ExpandOptions{})
		if run.Panic != "" {
			f.Add("PANIC", "ExpandSpec", "%s", run.Panic)
			return
		}
		if run.Err != nil {
			info.reasons = append(info.reasons, "expansion error: "+run.Err.Error())
			return // "a successful expansion": errors are C08's business
		}
		info.expanded = true
		ans, err = py.validate(run.OutBytes)
		if err != nil {
			f.Add("HARNESS", "", "validator: %v", err)
			return
		}
		if !ans.Valid {
			for _, e := range ans.Errors {
				f.Add("BECAME-INVALID", e.Path, "result of ExpandSpec: no longer valid at %s: %s", e.Path, e.Message)
			}
		}
	})
	return f, info
}

func TestC19(t *testing.T) {
	r := rec("C19")
	if _, err := validator(); err != nil {
		t.Fatalf("harness: cannot start the independent validator: %v", err)
	}
	// the repository's own fixtures (those that are schema-valid) go through the same oracle
	repo := os.Getenv("VERIF_REPO")
	if repo == "" {
		repo = "/repo"
	}
	if s, _ := shardInfo(); s == 0 {
		files, _ := filepath.Glob(filepath.Join(repo, "fixtures", "specs", "*.json"))
		more, _ := filepath.Glob(filepath.Join(repo, "fixtures", "expansion", "*.json"))
		for _, p := range append(files, more...) {
			b, err := os.ReadFile(p)
			if err != nil || len(b) > 400000 {
				continue
			}
			var v any
			if json.Unmarshal(b, &v) != nil {
				continue
			}
			c := c19Case{Doc: string(mustJSON(v))}
			f, info := oracleC19(c)
			if !info.inputValid {
				continue
			}
			r.Eval()
			r.Label("fixture")
			// fixtures refer to sibling files: only the round-trip half applies when expansion is not purely local
			verdict(t, "C19", "fixture:"+filepath.Base(p), c, f)
		}
	}
	generated, rejected := 0, 0
	reasons := map[string]int{}
	rapid.Check(t, func(t *rapid.T) {
		o := gen.VocabOpts{Hostile: true, Refs: true, Valid: true, Budget: 45}
		if gen.Pct(t, "k5", 10) {
			o.EmptyReqPct = 12
		}
		v := gen.NewV(t, o)
		doc := v.ValidSwagger()
		c := c19Case{Doc: string(mustJSON(doc))}
		f, info := oracleC19(c)
		generated++
		if !info.inputValid && f.Empty() {
			rejected++
			for _, rs := range info.reasons {
				reasons[rs]++
				break
			}
			r.Excluded("generated document rejected by the independent validator")
			t.Skip("not schema-valid")
		}
		r.Eval()
		r.LabelIf(info.expanded, "expanded")
		if info.inputValid && len(info.reasons) > 0 {
			r.Label("expansion failed (not a successful expansion)")
			if os.Getenv("VERIF_DEBUG") != "" {
				fmt.Println("EXPANSION-ERROR", info.reasons[0], c.Doc)
			}
		}
		r.LabelIf(strings.Contains(c.Doc, `"securityDefinitions"`), "security schemes")
		r.LabelIf(strings.Contains(c.Doc, `"$ref"`), "has $ref")
		r.LabelIf(len(v.EmptyReq) > 0, "required string drawn empty (K5 steering)")
		if strings.Contains(c.Doc, `"securityDefinitions"`) && strings.Contains(c.Doc, `"parameters"`) && strings.Contains(c.Doc, `"responses"`) {
			r.NonTrivial([]byte(c.Doc), c)
		}
		verdict(t, "C19", "generated", c, f)
	})
	r.Count("documents generated", generated)
	r.Count("documents rejected by the validator before use", rejected)
	if generated > 50 && rejected*100 > generated*15 {
		top := ""
		for k, n := range reasons {
			top += fmt.Sprintf("\n  %dx %s", n, k)
		}
		t.Fatalf("harness: generator health check failed: %d of %d generated documents are not schema-valid:%s", rejected, generated, top)
	}
}

func TestReplayC19(t *testing.T) {
	runReplays(t, "C19", func(variant string, raw json.RawMessage) *vstat.Failure {
		var c c19Case
		if err := json.Unmarshal(raw, &c); err != nil {
			return &vstat.Failure{Atoms: []vstat.Atom{{Kind: "HARNESS", Detail: err.Error()}}}
		}
		f, info := oracleC19(c)
		if !info.inputValid && f.Empty() {
			f.Add("HARNESS", "", "the replayed document is not schema-valid: %v", info.reasons)
		}
		return f
	})
}
