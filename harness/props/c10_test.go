package props

// C10 — Single-element expanders agree with spec expansion and never touch the root.

import (
	"encoding/json"
	"testing"

	"github.com/go-openapi/spec"
	"pgregory.net/rapid"

	"verif/gen"
	"verif/model"
	"verif/vstat"
)

type c10Case struct {
	Graph gen.GraphCase `json:"graph"`
	Calls []elemCall    `json:"calls"`
	// Other, when set, is another root (same location, other content): every root-based call is preceded by
	// a call on Other with the same caller-supplied cache - the result must still be the one for Graph's root.
	Other *gen.GraphCase `json:"other,omitempty"`
}

var rootBased = map[string]bool{"ExpandSchema": true, "ExpandParameterWithRoot": true, "ExpandResponseWithRoot": true}

func callsFor(g *model.Graph, root string, rootBasedOnly bool) []elemCall {
	var out []elemCall
	for _, el := range g.TopElements(root) {
		var entries []string
		switch el.K {
		case model.KSchema:
			entries = []string{"ExpandSchema", "ExpandSchemaWithBasePath"}
		case model.KParam:
			entries = []string{"ExpandParameterWithRoot", "ExpandParameter"}
		case model.KResponse:
			entries = []string{"ExpandResponseWithRoot", "ExpandResponse"}
		}
		for _, e := range entries {
			if rootBased[e] {
				out = append(out, elemCall{Entry: e, Root: "typed", Elem: el.P.Ptr}, elemCall{Entry: e, Root: "generic", Elem: el.P.Ptr})
				if e != "ExpandSchema" { // ExpandSchema(schema, nil, cache) takes the schema itself for the root
					out = append(out, elemCall{Entry: e, Root: "preloaded", Elem: el.P.Ptr})
				}
			} else if !rootBasedOnly {
				out = append(out, elemCall{Entry: e, Elem: el.P.Ptr})
			}
		}
	}
	return out
}

func oracleC10(c c10Case) (*vstat.Failure, int) {
	f := &vstat.Failure{}
	gin := c.Graph.Graph()
	reached := 0
	var otherCalls []elemCall
	if c.Other != nil {
		otherCalls = callsFor(c.Other.Graph(), c.Other.Root, true)
	}
	for ci, call := range c.Calls {
		var cache spec.ResolutionCache
		if c.Other != nil && rootBased[call.Entry] && call.Root != "preloaded" && len(otherCalls) > 0 {
			// a pre-filled cache: it has just served an expansion against another root
			lc := newLogCache()
			oc := otherCalls[ci%len(otherCalls)]
			oc.Root = call.Root
			_ = runElem(*c.Other, oc, lc, nil)
			cache = lc
		}
		run := runElem(c.Graph, call, cache, nil)
		where := call.Entry + "(" + call.Root + ") " + call.Elem
		switch {
		case run.NotUsable != "":
			continue
		case run.Panic != "":
			f.Add("PANIC", where, "%s", run.Panic)
		case run.Err != nil:
			f.Add("ERROR", where, "expansion of an element whose $refs all resolve failed: %v", run.Err)
		default:
			if run.RootDiff != "" {
				f.Add("ROOT-MODIFIED", where, "the root document passed as context changed: %s", run.RootDiff)
			}
			if run.OptsDiff != "" {
				f.Add("OPTIONS-MODIFIED", where, "the caller's options changed: %s", run.OptsDiff)
			}
			checkElemMeaning(f, gin, c.Graph.Root, call, run.Out, false)
			el := model.Elem{P: model.Pos{Doc: c.Graph.Root, Ptr: call.Elem}, K: kindOfEntry(call.Entry)}
			if len(gin.RefsBelow(el.P, el.K)) > 0 {
				reached++
			}
		}
		if !f.Empty() {
			return f, reached
		}
	}
	return f, reached
}

func genC10(t *rapid.T) c10Case {
	o := gen.DefaultGraphOpts()
	rootOnly := gen.Pct(t, "rootbased-domain", 50)
	if rootOnly {
		// the documented domain of the root-based entry points: everything lives in the root document,
		// $refs are fragment-only (or absolute URLs of other documents)
		o.OnlyFragAbs = true
		if gen.Pct(t, "singledoc", 60) {
			o.MaxDocs = 1
		}
	}
	g := gen.Graph(t, o)
	mg := g.Graph()
	var other *gen.GraphCase
	if rootOnly && gen.Pct(t, "prefilled-cache", 40) {
		o2 := o
		o2.LabelPrefix = "other-"
		// the other root lives in memory only and refers to nothing but itself: the one thing the two
		// expansions share is the cache (and in it the pseudo location of an in-memory root)
		o2.MaxDocs = 1
		o2.OnlyFragAbs = false
		o2.Spell = gen.SpellFragment
		og := gen.Graph(t, o2)
		other = &og
	}
	calls := callsFor(mg, g.Root, false)
	if rootOnly {
		// ExpandSchemaWithBasePath with caller options that name no base: the root comes from a pre-filled cache
		for _, c := range append([]elemCall{}, calls...) {
			if c.Entry == "ExpandSchemaWithBasePath" {
				calls = append(calls, elemCall{Entry: c.Entry, Root: "preloaded", Elem: c.Elem})
			}
		}
	}
	if !rootOnly {
		// multi-document graphs with relative $refs: only the base-location entry points apply
		var kept []elemCall
		for _, c := range calls {
			if !rootBased[c.Entry] {
				kept = append(kept, c)
			}
		}
		calls = kept
	}
	return c10Case{Graph: g, Calls: calls, Other: other}
}

func TestC10(t *testing.T) {
	r := rec("C10")
	rapid.Check(t, func(t *rapid.T) {
		c := genC10(t)
		cl := gen.Classify(c.Graph)
		vstat.InFlight("C10", "elements", c)
		f, reached := oracleC10(c)
		vstat.ClearInFlight("C10")
		r.Eval()
		r.Count("single-element expansions", len(c.Calls))
		for _, call := range c.Calls {
			r.Label("entry=" + call.Entry)
		}
		r.LabelIf(cl.Cyclic, "cyclic")
		r.LabelIf(cl.NDocs > 1, "multi-document")
		r.LabelIf(c.Other != nil, "cache pre-filled by an expansion against another root")
		if reached > 0 {
			r.NonTrivial(mustJSON(c), c)
		}
		verdict(t, "C10", "elements", c, f)
	})
}

func TestReplayC10(t *testing.T) {
	runReplays(t, "C10", func(variant string, raw json.RawMessage) *vstat.Failure {
		var c c10Case
		if err := json.Unmarshal(raw, &c); err != nil {
			return &vstat.Failure{Atoms: []vstat.Atom{{Kind: "HARNESS", Detail: err.Error()}}}
		}
		f, _ := oracleC10(c)
		return f
	})
}
