package props

// C06, family (b): model values made through the builder API. A generated list
// of builder calls is interpreted step by step; the encoding oracle runs on the
// touched value after every step.

import (
	"encoding/json"
	"fmt"

	"github.com/go-openapi/spec"
	"pgregory.net/rapid"

	"verif/gen"
	"verif/vstat"
)

type builderStep struct {
	On string  `json:"on"` // schema, parameter, header, items, operation, response, security
	Op string  `json:"op"`
	S  string  `json:"s,omitempty"`
	S2 string  `json:"s2,omitempty"`
	N  int64   `json:"n,omitempty"`
	F  float64 `json:"f,omitempty"`
	B  bool    `json:"b,omitempty"`
	V  any     `json:"v,omitempty"`
}

type builderState struct {
	schema    *spec.Schema
	parameter *spec.Parameter
	header    *spec.Header
	items     *spec.Items
	operation *spec.Operation
	response  *spec.Response
	security  *spec.SecurityScheme
}

func newBuilderState() *builderState {
	return &builderState{schema: new(spec.Schema), parameter: spec.QueryParam("q"), header: spec.ResponseHeader(), items: spec.NewItems(),
		operation: spec.NewOperation("op"), response: spec.NewResponse(), security: spec.BasicAuth()}
}

var builderOps = map[string][]string{
	"schema":    {"Typed", "AddType", "SetProperty", "SetPropertyOrdered", "WithAllOf", "AddToAllOf", "WithEnum", "WithDefault", "WithExample", "WithRequired", "AddRequired", "WithMaxLength", "WithPattern", "WithMultipleOf", "WithMaximum", "WithMinimum", "UniqueValues", "AllowDuplicates", "WithDiscriminator", "AsReadOnly", "AsWritable", "WithExternalDocs", "WithXMLName", "AsXMLAttribute", "AsWrappedXML", "AsUnwrappedXML", "AsNullable", "CollectionOf", "WithID", "WithTitle", "WithDescription", "AddExtension", "WithMaxProperties", "WithProperties"},
	"parameter": {"Named", "WithLocation", "Typed", "CollectionOf", "WithDefault", "AllowsEmptyValues", "NoEmptyValues", "AsRequired", "AsOptional", "WithEnum", "WithMaxItems", "WithMinimum", "AddExtension", "WithDescription", "BodyParam"},
	"header":    {"Typed", "CollectionOf", "WithDescription", "WithEnum", "WithDefault", "WithMaxLength", "UniqueValues", "AddExtension"},
	"items":     {"Typed", "CollectionOf", "AsNullable", "WithEnum", "WithDefault", "WithPattern", "AddExtension"},
	"operation": {"WithID", "WithTags", "AddParam", "RemoveParam", "SecuredWith", "WithDefaultResponse", "RespondsWith", "WithConsumes", "WithProduces", "Deprecate", "AddExtension", "WithExternalDocs", "WithSummary"},
	"response":  {"WithDescription", "WithSchema", "AddHeader", "RemoveHeader", "AddExample", "AddExtension"},
	"security":  {"BasicAuth", "APIKeyAuth", "OAuth2Implicit", "OAuth2Password", "OAuth2Application", "OAuth2AccessToken", "AddScope", "AddExtension"},
}

var builderTargets = []string{"schema", "schema", "parameter", "header", "items", "operation", "response", "security"}

var builderNames = []string{"a", "b", "id", "a\"b", "a\\b", "a\nb", "é", "", "x-foo", "default", "200", "a/b", "~1", "😀", "X-Up", "x-order", "\u0001", "</script>"}

func drawStep(t *rapid.T) builderStep {
	on := builderTargets[gen.Uniform(t, "on", len(builderTargets))]
	ops := builderOps[on]
	st := builderStep{On: on, Op: ops[gen.Uniform(t, "op", len(ops))]}
	st.S = builderNames[gen.Uniform(t, "s", len(builderNames))]
	st.S2 = builderNames[gen.Uniform(t, "s2", len(builderNames))]
	st.N = []int64{0, 1, 2, 200, 404, -1}[gen.Uniform(t, "n", 6)]
	st.F = []float64{0, 1, -1.5, 2.5}[gen.Uniform(t, "f", 4)]
	st.B = rapid.Bool().Draw(t, "b")
	v := gen.NewV(t, gen.VocabOpts{Hostile: true})
	st.V = v.Free(1)
	return st
}

func smallSchema(st builderStep) spec.Schema {
	s := spec.Schema{}
	s.Title = st.S2
	if st.B {
		s.AddExtension("x-order", st.V)
	}
	if st.N > 0 {
		s.Properties = map[string]spec.Schema{st.S: {}, st.S2: {}}
	}
	return s
}

func (b *builderState) apply(st builderStep) any {
	ext := func(v *spec.VendorExtensible) { v.AddExtension(st.S, st.V) }
	switch st.On {
	case "schema":
		s := b.schema
		switch st.Op {
		case "Typed":
			s.Typed(st.S, st.S2)
		case "AddType":
			s.AddType(st.S, st.S2)
		case "SetProperty":
			s.SetProperty(st.S, smallSchema(st))
		case "SetPropertyOrdered":
			sub := spec.Schema{}
			sub.AddExtension("x-order", float64(st.N))
			s.SetProperty(st.S, sub)
			sub2 := spec.Schema{}
			sub2.AddExtension("x-order", fmt.Sprint(st.N))
			s.SetProperty(st.S2, sub2)
		case "WithProperties":
			s.WithProperties(map[string]spec.Schema{st.S: smallSchema(st), st.S2: {}})
		case "WithAllOf":
			s.WithAllOf(smallSchema(st))
		case "AddToAllOf":
			s.AddToAllOf(smallSchema(st), spec.Schema{})
		case "WithEnum":
			s.WithEnum(st.V, st.S)
		case "WithDefault":
			s.WithDefault(st.V)
		case "WithExample":
			s.WithExample(st.V)
		case "WithRequired":
			s.WithRequired(st.S, st.S2)
		case "AddRequired":
			s.AddRequired(st.S)
		case "WithMaxLength":
			s.WithMaxLength(st.N)
		case "WithMaxProperties":
			s.WithMaxProperties(st.N)
		case "WithPattern":
			s.WithPattern(st.S)
		case "WithMultipleOf":
			s.WithMultipleOf(st.F)
		case "WithMaximum":
			s.WithMaximum(st.F, st.B)
		case "WithMinimum":
			s.WithMinimum(st.F, st.B)
		case "UniqueValues":
			s.UniqueValues()
		case "AllowDuplicates":
			s.AllowDuplicates()
		case "WithDiscriminator":
			s.WithDiscriminator(st.S)
		case "AsReadOnly":
			s.AsReadOnly()
		case "AsWritable":
			s.AsWritable()
		case "WithExternalDocs":
			s.WithExternalDocs(st.S, st.S2)
		case "WithXMLName":
			s.WithXMLName(st.S)
		case "AsXMLAttribute":
			s.AsXMLAttribute()
		case "AsWrappedXML":
			s.AsWrappedXML()
		case "AsUnwrappedXML":
			s.AsUnwrappedXML()
		case "AsNullable":
			s.AsNullable()
		case "CollectionOf":
			s.CollectionOf(smallSchema(st))
		case "WithID":
			s.WithID(st.S)
		case "WithTitle":
			s.WithTitle(st.S)
		case "WithDescription":
			s.WithDescription(st.S)
		case "AddExtension":
			ext(&s.VendorExtensible)
		}
		return s
	case "parameter":
		p := b.parameter
		switch st.Op {
		case "Named":
			p.Named(st.S)
		case "WithLocation":
			p.WithLocation(st.S)
		case "Typed":
			p.Typed(st.S, st.S2)
		case "CollectionOf":
			p.CollectionOf(spec.NewItems().Typed(st.S, ""), st.S2)
		case "WithDefault":
			p.WithDefault(st.V)
		case "AllowsEmptyValues":
			p.AllowsEmptyValues()
		case "NoEmptyValues":
			p.NoEmptyValues()
		case "AsRequired":
			p.AsRequired()
		case "AsOptional":
			p.AsOptional()
		case "WithEnum":
			p.WithEnum(st.V, st.S)
		case "WithMaxItems":
			p.WithMaxItems(st.N)
		case "WithMinimum":
			p.WithMinimum(st.F, st.B)
		case "WithDescription":
			p.WithDescription(st.S)
		case "BodyParam":
			sc := smallSchema(st)
			b.parameter = spec.BodyParam(st.S, &sc)
			return b.parameter
		case "AddExtension":
			ext(&p.VendorExtensible)
		}
		return p
	case "header":
		h := b.header
		switch st.Op {
		case "Typed":
			h.Typed(st.S, st.S2)
		case "CollectionOf":
			h.CollectionOf(spec.NewItems().Typed(st.S, ""), st.S2)
		case "WithDescription":
			h.WithDescription(st.S)
		case "WithEnum":
			h.WithEnum(st.V)
		case "WithDefault":
			h.WithDefault(st.V)
		case "WithMaxLength":
			h.WithMaxLength(st.N)
		case "UniqueValues":
			h.UniqueValues()
		case "AddExtension":
			ext(&h.VendorExtensible)
		}
		return h
	case "items":
		i := b.items
		switch st.Op {
		case "Typed":
			i.Typed(st.S, st.S2)
		case "CollectionOf":
			inner := spec.NewItems().Typed(st.S2, "")
			inner.AddExtension(st.S, st.V)
			i.CollectionOf(inner, st.S2)
		case "AsNullable":
			i.AsNullable()
		case "WithEnum":
			i.WithEnum(st.V)
		case "WithDefault":
			i.WithDefault(st.V)
		case "WithPattern":
			i.WithPattern(st.S)
		case "AddExtension":
			ext(&i.VendorExtensible)
		}
		return i
	case "operation":
		o := b.operation
		switch st.Op {
		case "WithID":
			o.WithID(st.S)
		case "WithSummary":
			o.WithSummary(st.S)
		case "WithTags":
			o.WithTags(st.S, st.S2)
		case "AddParam":
			p := spec.QueryParam(st.S)
			if st.B {
				p = spec.HeaderParam(st.S)
			}
			p.AddExtension(st.S2, st.V)
			o.AddParam(p)
		case "RemoveParam":
			in := "query"
			if st.B {
				in = "header"
			}
			o.RemoveParam(st.S, in)
		case "SecuredWith":
			o.SecuredWith(st.S, st.S2)
		case "WithDefaultResponse":
			o.WithDefaultResponse(spec.NewResponse().WithDescription(st.S))
		case "RespondsWith":
			r := spec.NewResponse().WithDescription(st.S)
			r.AddHeader(st.S2, spec.ResponseHeader().Typed("string", ""))
			o.RespondsWith(int(st.N), r)
		case "WithConsumes":
			o.WithConsumes(st.S, st.S2)
		case "WithProduces":
			o.WithProduces(st.S)
		case "Deprecate":
			o.Deprecate()
		case "WithExternalDocs":
			o.WithExternalDocs(st.S, st.S2)
		case "AddExtension":
			ext(&o.VendorExtensible)
		}
		return o
	case "response":
		r := b.response
		switch st.Op {
		case "WithDescription":
			r.WithDescription(st.S)
		case "WithSchema":
			sc := smallSchema(st)
			r.WithSchema(&sc)
		case "AddHeader":
			h := spec.ResponseHeader().Typed("string", st.S2)
			h.AddExtension(st.S, st.V)
			r.AddHeader(st.S, h)
		case "RemoveHeader":
			r.RemoveHeader(st.S)
		case "AddExample":
			r.AddExample(st.S, st.V)
		case "AddExtension":
			ext(&r.VendorExtensible)
		}
		return r
	case "security":
		switch st.Op {
		case "BasicAuth":
			b.security = spec.BasicAuth()
		case "APIKeyAuth":
			b.security = spec.APIKeyAuth(st.S, st.S2)
		case "OAuth2Implicit":
			b.security = spec.OAuth2Implicit(st.S)
		case "OAuth2Password":
			b.security = spec.OAuth2Password(st.S)
		case "OAuth2Application":
			b.security = spec.OAuth2Application(st.S)
		case "OAuth2AccessToken":
			b.security = spec.OAuth2AccessToken(st.S, st.S2)
		case "AddScope":
			b.security.AddScope(st.S, st.S2)
		case "AddExtension":
			ext(&b.security.VendorExtensible)
		}
		return b.security
	}
	return nil
}

func replayBuilder(steps []builderStep) *vstat.Failure {
	f := &vstat.Failure{}
	st := newBuilderState()
	for i, s := range steps {
		var touched any
		guard(f, fmt.Sprintf("step %d %s.%s", i, s.On, s.Op), func() { touched = st.apply(s) })
		if touched == nil || !f.Empty() {
			return f
		}
		checkEncoding(f, touched, fmt.Sprintf("after step %d (%s.%s)", i, s.On, s.Op), 3)
		if !f.Empty() {
			return f
		}
	}
	// finally: every value, and a Swagger document assembled from them
	sw := &spec.Swagger{}
	sw.Swagger = "2.0"
	sw.Definitions = spec.Definitions{"s": *st.schema}
	sw.Parameters = map[string]spec.Parameter{"p": *st.parameter}
	sw.Responses = map[string]spec.Response{"r": *st.response}
	sw.SecurityDefinitions = spec.SecurityDefinitions{"sec": st.security}
	sw.Paths = &spec.Paths{Paths: map[string]spec.PathItem{"/x": {PathItemProps: spec.PathItemProps{Get: st.operation}}}}
	checkEncoding(f, sw, "assembled swagger", 3)
	return f
}

func builderMachine(t *rapid.T, r *vstat.Recorder) {
	n := 1 + gen.Uniform(t, "nsteps", 30)
	steps := make([]builderStep, n)
	for i := range steps {
		steps[i] = drawStep(t)
	}
	// normalise through JSON so that the replay sees exactly what ran
	var norm []builderStep
	_ = json.Unmarshal(mustJSON(steps), &norm)
	f := replayBuilder(norm)
	r.Eval()
	r.Label("family=builder")
	r.Count("builder steps", n)
	r.NonTrivial(mustJSON(norm), norm)
	verdict(t, "C06", "builder", norm, f)
}
