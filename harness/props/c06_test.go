package props

// C06 — Encoding is well-formed, collision-free and deterministic.

import (
	"bytes"
	"encoding/json"
	"fmt"
	"io"
	"math"
	"sort"
	"strconv"
	"strings"
	"testing"

	"github.com/go-openapi/spec"
	"pgregory.net/rapid"

	"verif/gen"
	"verif/model"
	"verif/vstat"
)

// ---------------------------------------------------------------------------
// strict, order-preserving scan of the emitted text

type onode struct {
	keys []string // object member names in emission order
	vals []*onode
	arr  []*onode
	leaf any
	kind byte // 'o', 'a', 'l'
}

// strictParse checks that b is one valid JSON value in which no object repeats
// a member name, and returns the order-preserving tree.
func strictParse(b []byte) (*onode, error) {
	dec := json.NewDecoder(bytes.NewReader(b))
	dec.UseNumber()
	n, err := parseNode(dec, "")
	if err != nil {
		return nil, err
	}
	if _, err := dec.Token(); err != io.EOF {
		return nil, fmt.Errorf("trailing data after the JSON value")
	}
	return n, nil
}

func parseNode(dec *json.Decoder, path string) (*onode, error) {
	tok, err := dec.Token()
	if err != nil {
		return nil, err
	}
	switch d := tok.(type) {
	case json.Delim:
		switch d {
		case '{':
			n := &onode{kind: 'o'}
			seen := map[string]bool{}
			for dec.More() {
				kt, err := dec.Token()
				if err != nil {
					return nil, err
				}
				k, ok := kt.(string)
				if !ok {
					return nil, fmt.Errorf("non-string member name at %s", path)
				}
				if seen[k] {
					return nil, fmt.Errorf("object at %q carries the member name %q twice", path, k)
				}
				seen[k] = true
				v, err := parseNode(dec, path+"/"+model.EscTok(k))
				if err != nil {
					return nil, err
				}
				n.keys = append(n.keys, k)
				n.vals = append(n.vals, v)
			}
			if _, err := dec.Token(); err != nil {
				return nil, err
			}
			return n, nil
		case '[':
			n := &onode{kind: 'a'}
			for i := 0; dec.More(); i++ {
				v, err := parseNode(dec, path+"/"+strconv.Itoa(i))
				if err != nil {
					return nil, err
				}
				n.arr = append(n.arr, v)
			}
			if _, err := dec.Token(); err != nil {
				return nil, err
			}
			return n, nil
		}
		return nil, fmt.Errorf("unexpected delimiter %v at %s", d, path)
	}
	return &onode{kind: 'l', leaf: tok}, nil
}

func (n *onode) get(path string) *onode {
	cur := n
	for _, tok := range (model.Pos{Ptr: path}).Tokens() {
		if cur == nil {
			return nil
		}
		switch cur.kind {
		case 'o':
			var next *onode
			for i, k := range cur.keys {
				if k == tok {
					next = cur.vals[i]
				}
			}
			cur = next
		case 'a':
			i, err := strconv.Atoi(tok)
			if err != nil || i < 0 || i >= len(cur.arr) {
				return nil
			}
			cur = cur.arr[i]
		default:
			return nil
		}
	}
	return cur
}

// ---------------------------------------------------------------------------
// what the model holds: key sets of the map-valued containers, read from the
// typed value by direct field access (independent of the MarshalJSON methods)

type keySets struct {
	exact  map[string][]string // path of a container object -> its exact member names
	ext    map[string][]string // path of an object -> the x- members it must carry (exactly those)
	extra  map[string][]string // path of a schema -> unknown keywords it must carry
	props  map[string]map[string]spec.Schema
	f      *vstat.Failure
	budget int
}

func sortedSet(ks []string) []string { sort.Strings(ks); return ks }

func (ks *keySets) extensions(path string, e spec.Extensions) {
	var out []string
	for k := range e {
		if strings.HasPrefix(strings.ToLower(k), "x-") {
			out = append(out, k)
		}
	}
	ks.ext[path] = sortedSet(out)
}

func (ks *keySets) schema(path string, s *spec.Schema) {
	ks.budget--
	if s == nil || ks.budget < 0 {
		return
	}
	ks.extensions(path, s.Extensions)
	var extra []string
	for k := range s.ExtraProps {
		extra = append(extra, k)
	}
	ks.extra[path] = sortedSet(extra)
	smap := func(name string, m map[string]spec.Schema) {
		if len(m) == 0 {
			return
		}
		var names []string
		for k := range m {
			names = append(names, k)
			sc := m[k]
			ks.schema(path+"/"+name+"/"+model.EscTok(k), &sc)
		}
		ks.exact[path+"/"+name] = sortedSet(names)
		if name == "properties" || name == "patternProperties" {
			ks.props[path+"/"+name] = m
		}
	}
	smap("properties", s.Properties)
	smap("patternProperties", s.PatternProperties)
	smap("definitions", s.Definitions)
	if len(s.Dependencies) > 0 {
		var names []string
		for k, d := range s.Dependencies {
			names = append(names, k)
			if d.Schema != nil {
				ks.schema(path+"/dependencies/"+model.EscTok(k), d.Schema)
			}
		}
		ks.exact[path+"/dependencies"] = sortedSet(names)
	}
	for i := range s.AllOf {
		ks.schema(fmt.Sprintf("%s/allOf/%d", path, i), &s.AllOf[i])
	}
	for i := range s.AnyOf {
		ks.schema(fmt.Sprintf("%s/anyOf/%d", path, i), &s.AnyOf[i])
	}
	for i := range s.OneOf {
		ks.schema(fmt.Sprintf("%s/oneOf/%d", path, i), &s.OneOf[i])
	}
	ks.schema(path+"/not", s.Not)
	if s.Items != nil {
		ks.schema(path+"/items", s.Items.Schema)
		if s.Items.Schema == nil {
			for i := range s.Items.Schemas {
				ks.schema(fmt.Sprintf("%s/items/%d", path, i), &s.Items.Schemas[i])
			}
		}
	}
	if s.AdditionalProperties != nil {
		ks.schema(path+"/additionalProperties", s.AdditionalProperties.Schema)
	}
	if s.AdditionalItems != nil {
		ks.schema(path+"/additionalItems", s.AdditionalItems.Schema)
	}
}

func (ks *keySets) items(path string, it *spec.Items) {
	for d := 0; it != nil && d < 20; d++ {
		ks.extensions(path, it.Extensions)
		it = it.Items
		path += "/items"
	}
}

func (ks *keySets) header(path string, h *spec.Header) {
	ks.extensions(path, h.Extensions)
	ks.items(path+"/items", h.Items)
}

func (ks *keySets) parameter(path string, p *spec.Parameter) {
	ks.extensions(path, p.Extensions)
	ks.schema(path+"/schema", p.Schema)
	ks.items(path+"/items", p.Items)
}

func (ks *keySets) response(path string, r *spec.Response) {
	if r == nil {
		return
	}
	ks.extensions(path, r.Extensions)
	ks.schema(path+"/schema", r.Schema)
	if len(r.Headers) > 0 {
		var names []string
		for k := range r.Headers {
			names = append(names, k)
			h := r.Headers[k]
			ks.header(path+"/headers/"+model.EscTok(k), &h)
		}
		ks.exact[path+"/headers"] = sortedSet(names)
	}
	if len(r.Examples) > 0 {
		var names []string
		for k := range r.Examples {
			names = append(names, k)
		}
		ks.exact[path+"/examples"] = sortedSet(names)
	}
}

func (ks *keySets) responses(path string, r *spec.Responses) {
	if r == nil {
		return
	}
	var names []string
	if r.Default != nil {
		names = append(names, "default")
		ks.response(path+"/default", r.Default)
	}
	for code := range r.StatusCodeResponses {
		names = append(names, strconv.Itoa(code))
		resp := r.StatusCodeResponses[code]
		ks.response(path+"/"+strconv.Itoa(code), &resp)
	}
	for k := range r.Extensions {
		if strings.HasPrefix(strings.ToLower(k), "x-") {
			names = append(names, k)
		}
	}
	ks.exact[path] = sortedSet(names)
}

func (ks *keySets) operation(path string, o *spec.Operation) {
	if o == nil {
		return
	}
	ks.extensions(path, o.Extensions)
	for i := range o.Parameters {
		ks.parameter(fmt.Sprintf("%s/parameters/%d", path, i), &o.Parameters[i])
	}
	ks.responses(path+"/responses", o.Responses)
}

func (ks *keySets) pathItem(path string, p *spec.PathItem) {
	ks.extensions(path, p.Extensions)
	for i := range p.Parameters {
		ks.parameter(fmt.Sprintf("%s/parameters/%d", path, i), &p.Parameters[i])
	}
	for name, op := range map[string]*spec.Operation{"get": p.Get, "put": p.Put, "post": p.Post, "delete": p.Delete, "options": p.Options, "head": p.Head, "patch": p.Patch} {
		ks.operation(path+"/"+name, op)
	}
}

func (ks *keySets) paths(path string, p *spec.Paths) {
	if p == nil {
		return
	}
	var names []string
	for k := range p.Paths {
		if strings.HasPrefix(k, "/") {
			names = append(names, k)
			pi := p.Paths[k]
			ks.pathItem(path+"/"+model.EscTok(k), &pi)
		}
	}
	for k := range p.Extensions {
		if strings.HasPrefix(strings.ToLower(k), "x-") {
			names = append(names, k)
		}
	}
	ks.exact[path] = sortedSet(names)
}

func (ks *keySets) securityScheme(path string, s *spec.SecurityScheme) {
	if s == nil {
		return // "a": null decodes to a nil scheme, encoded as null again
	}
	ks.extensions(path, s.Extensions)
	if len(s.Scopes) > 0 {
		var names []string
		for k := range s.Scopes {
			names = append(names, k)
		}
		ks.exact[path+"/scopes"] = sortedSet(names)
	}
}

func (ks *keySets) swagger(s *spec.Swagger) {
	ks.extensions("", s.Extensions)
	if s.Info != nil {
		ks.extensions("/info", s.Info.Extensions)
	}
	ks.paths("/paths", s.Paths)
	mapOf := func(name string, n int, each func(add func(k string))) {
		if n == 0 {
			return
		}
		var names []string
		each(func(k string) { names = append(names, k) })
		ks.exact["/"+name] = sortedSet(names)
	}
	mapOf("definitions", len(s.Definitions), func(add func(string)) {
		for k := range s.Definitions {
			add(k)
			sc := s.Definitions[k]
			ks.schema("/definitions/"+model.EscTok(k), &sc)
		}
	})
	mapOf("parameters", len(s.Parameters), func(add func(string)) {
		for k := range s.Parameters {
			add(k)
			p := s.Parameters[k]
			ks.parameter("/parameters/"+model.EscTok(k), &p)
		}
	})
	mapOf("responses", len(s.Responses), func(add func(string)) {
		for k := range s.Responses {
			add(k)
			r := s.Responses[k]
			ks.response("/responses/"+model.EscTok(k), &r)
		}
	})
	mapOf("securityDefinitions", len(s.SecurityDefinitions), func(add func(string)) {
		for k := range s.SecurityDefinitions {
			add(k)
			ks.securityScheme("/securityDefinitions/"+model.EscTok(k), s.SecurityDefinitions[k])
		}
	})
	for i := range s.Tags {
		ks.extensions(fmt.Sprintf("/tags/%d", i), s.Tags[i].Extensions)
	}
}

func modelKeySets(v any) *keySets {
	ks := &keySets{exact: map[string][]string{}, ext: map[string][]string{}, extra: map[string][]string{}, props: map[string]map[string]spec.Schema{}, budget: 5000}
	switch x := v.(type) {
	case *spec.Swagger:
		ks.swagger(x)
	case *spec.Schema:
		ks.schema("", x)
	case *spec.Parameter:
		ks.parameter("", x)
	case *spec.Items:
		ks.items("", x)
	case *spec.Header:
		ks.header("", x)
	case *spec.Response:
		ks.response("", x)
	case *spec.Responses:
		ks.responses("", x)
	case *spec.Operation:
		ks.operation("", x)
	case *spec.PathItem:
		ks.pathItem("", x)
	case *spec.Paths:
		ks.paths("", x)
	case *spec.SecurityScheme:
		ks.securityScheme("", x)
	case *spec.Info:
		ks.extensions("", x.Extensions)
	case *spec.Tag:
		ks.extensions("", x.Extensions)
	case *spec.ContactInfo:
		ks.extensions("", x.Extensions)
	case *spec.License:
		ks.extensions("", x.Extensions)
	}
	return ks
}

// xOrderOf reads x-order the way the statement words it: an integer, or a
// string holding an integer. ok=false: no usable x-order; frac=true: a number
// that is not an integer (then only determinism is demanded).
func xOrderOf(s spec.Schema) (n int, ok bool, frac bool) {
	v, has := s.Extensions["x-order"]
	if !has {
		return 0, false, false
	}
	switch x := v.(type) {
	case float64:
		if x != math.Trunc(x) || math.Abs(x) > 1e9 {
			return 0, false, true
		}
		return int(x), true, false
	case string:
		if i, err := strconv.Atoi(x); err == nil {
			return i, true, false
		}
	}
	return 0, false, false
}

func expectedOrder(m map[string]spec.Schema) (order []string, defined bool) {
	type it struct {
		name    string
		n       int
		ordered bool
	}
	var items []it
	for k, s := range m {
		n, ok, frac := xOrderOf(s)
		if frac {
			return nil, false
		}
		for ek := range s.Extensions {
			if strings.ToLower(ek) == "x-order" && ek != "x-order" {
				return nil, false // a case variant of the extension name: not what the statement pins
			}
		}
		items = append(items, it{k, n, ok})
	}
	sort.Slice(items, func(i, j int) bool {
		a, b := items[i], items[j]
		if a.ordered != b.ordered {
			return a.ordered
		}
		if a.ordered && a.n != b.n {
			return a.n < b.n
		}
		return a.name < b.name
	})
	for _, x := range items {
		order = append(order, x.name)
	}
	return order, true
}

// checkEncoding is the oracle on one model value.
func checkEncoding(f *vstat.Failure, v any, what string, reps int) (b []byte, nt bool) {
	guard(f, what, func() {
		var err error
		b, err = json.Marshal(v)
		if err != nil {
			b = nil
			return // "either fails with an error or ..."
		}
		root, err := strictParse(b)
		if err != nil {
			f.Add("MALFORMED", what, "%v in %s", err, clip(b))
			return
		}
		for i := 0; i < reps; i++ {
			b2, err := json.Marshal(v)
			if err != nil || !bytes.Equal(b, b2) {
				f.Add("NONDETERMINISTIC", what, "two encodings of the same value differ: %s vs %s (%v)", clip(b), clip(b2), err)
				return
			}
		}
		ks := modelKeySets(v)
		for path, want := range ks.exact {
			n := root.get(path)
			if n == nil || n.kind != 'o' {
				f.Add("NAMES", path, "the model holds members %q in the container at %q, the encoding has no object there: %s", want, path, clip(b))
				continue
			}
			got := sortedSet(append([]string{}, n.keys...))
			if strings.Join(got, "\x00") != strings.Join(want, "\x00") {
				f.Add("NAMES", path, "container at %q: the model holds %q, the encoding parses back to %q", path, want, got)
			}
		}
		for path, want := range ks.ext {
			n := root.get(path)
			if n == nil || n.kind != 'o' {
				if len(want) > 0 {
					f.Add("NAMES", path, "the model holds extensions %q at %q, the encoding has no object there", want, path)
				}
				continue
			}
			var got []string
			for _, k := range n.keys {
				if strings.HasPrefix(strings.ToLower(k), "x-") {
					got = append(got, k)
				}
			}
			sort.Strings(got)
			if _, isContainer := ks.exact[path]; isContainer {
				continue // paths / responses: extension names are part of the exact set
			}
			if strings.Join(got, "\x00") != strings.Join(want, "\x00") {
				f.Add("NAMES", path, "object at %q: the model holds the extensions %q, the encoding carries %q", path, want, got)
			}
		}
		for path, want := range ks.extra {
			n := root.get(path)
			if n == nil || n.kind != 'o' {
				continue
			}
			have := map[string]bool{}
			for _, k := range n.keys {
				have[k] = true
			}
			for _, k := range want {
				if !have[k] {
					f.Add("NAMES", path, "schema at %q: the model holds the unknown keyword %q, the encoding does not carry it", path, k)
				}
			}
		}
		for path, m := range ks.props {
			if len(m) >= 2 {
				nt = true
			}
			want, defined := expectedOrder(m)
			n := root.get(path)
			if !defined || n == nil || n.kind != 'o' {
				continue
			}
			if strings.Join(n.keys, "\x00") != strings.Join(want, "\x00") {
				f.Add("ORDER", path, "%s at %q are emitted in the order %q; ascending x-order then name is %q", model.LastToken(path), path, n.keys, want)
			}
		}
	})
	return b, nt
}

// ---------------------------------------------------------------------------
// family (a): values decoded from documents outside the normal form

func xOrderValue(t *rapid.T) any {
	if gen.Pct(t, "far apart", 12) {
		// values whose differences do not fit an int64 (but each of which does)
		return []any{6e18, -6e18, 9e18, -9e18, "6000000000000000000", "-6000000000000000000", "9223372036854775807", "-9223372036854775808", 0.0, "0"}[gen.Uniform(t, "xorderfar", 10)]
	}
	return []any{1.0, 2.0, 2.0, 0.0, -1.0, 10.0, "1", "2", "10", "-3", 1.5, 2.5, "x", "1.5", true, nil, []any{1.0}, 1e12, ""}[gen.Uniform(t, "xorder", 19)]
}

// decorateXOrder adds x-order extensions (ties, strings, fractions, junk) to
// the members of every properties / patternProperties container.
func decorateXOrder(t *rapid.T, v any) {
	switch x := v.(type) {
	case map[string]any:
		for _, k := range model.SortedKeys(x) {
			if k == "properties" || k == "patternProperties" {
				if m, ok := x[k].(map[string]any); ok {
					for _, name := range model.SortedKeys(m) {
						if sch, ok := m[name].(map[string]any); ok && gen.Pct(t, "hasxorder", 70) {
							key := "x-order"
							if gen.Pct(t, "xordercase", 6) {
								key = []string{"X-Order", "x-Order", "X-ORDER"}[gen.Uniform(t, "xordervariant", 3)]
							}
							sch[key] = xOrderValue(t)
						}
					}
				}
			}
			decorateXOrder(t, x[k])
		}
	case []any:
		for _, e := range x {
			decorateXOrder(t, e)
		}
	}
}

func shuffledText(t *rapid.T, v any) []byte {
	// render with member order reversed / rotated: decoding must not depend on it
	var render func(n any) string
	mode := gen.Uniform(t, "shufflemode", 3)
	render = func(n any) string {
		switch x := n.(type) {
		case map[string]any:
			keys := model.SortedKeys(x)
			switch mode {
			case 0:
				for i, j := 0, len(keys)-1; i < j; i, j = i+1, j-1 {
					keys[i], keys[j] = keys[j], keys[i]
				}
			case 1:
				if len(keys) > 1 {
					keys = append(keys[len(keys)/2:], keys[:len(keys)/2]...)
				}
			}
			parts := make([]string, len(keys))
			for i, k := range keys {
				kb, _ := json.Marshal(k)
				parts[i] = string(kb) + ":" + render(x[k])
			}
			return "{" + strings.Join(parts, ",") + "}"
		case []any:
			parts := make([]string, len(x))
			for i, e := range x {
				parts[i] = render(e)
			}
			return "[" + strings.Join(parts, ",") + "]"
		}
		b, _ := json.Marshal(n)
		return string(b)
	}
	return []byte(render(v))
}

type c06Case struct {
	Kind     string `json:"kind"`
	Doc      string `json:"doc"`
	Shuffled string `json:"shuffled"` // same value, other member order
}

func oracleC06(c c06Case) (*vstat.Failure, bool) {
	f := &vstat.Failure{}
	v := newTarget(c.Kind)
	if err := json.Unmarshal([]byte(c.Doc), v); err != nil {
		return f, false // not a model value
	}
	b1, nt := checkEncoding(f, v, c.Kind, 20)
	if b1 == nil || !f.Empty() {
		return f, nt
	}
	// decoding the same document with another member order, on fresh maps, many times
	for i := 0; i < 6; i++ {
		w := newTarget(c.Kind)
		text := c.Shuffled
		if i%2 == 1 {
			text = c.Doc
		}
		if err := json.Unmarshal([]byte(text), w); err != nil {
			f.Add("NONDETERMINISTIC", c.Kind, "the same document with members in another order does not decode: %v", err)
			return f, nt
		}
		b2, err := json.Marshal(w)
		if err != nil || !bytes.Equal(b1, b2) {
			f.Add("NONDETERMINISTIC", c.Kind, "the same value (decoded again, member order of the input varied) encodes differently: %s vs %s (%v)", clip(b1), clip(b2), err)
			return f, nt
		}
	}
	return f, nt
}

func TestC06(t *testing.T) {
	r := rec("C06")
	rapid.Check(t, func(t *rapid.T) {
		if gen.Pct(t, "builder", 35) {
			builderMachine(t, r)
			return
		}
		kind := gen.Kinds[gen.Uniform(t, "kind", len(gen.Kinds))]
		if gen.Pct(t, "schemabias", 40) {
			kind = "schema"
		}
		v := gen.NewV(t, gen.VocabOpts{Hostile: true, Refs: true, EmptySecurity: true, Budget: 30})
		doc := v.Instance(kind)
		if kind == "schema" && gen.Pct(t, "wide", 25) {
			// a wide container: many properties sharing few x-order values (sorting algorithms change behaviour with size)
			m := doc.(map[string]any)
			props := map[string]any{}
			n := 8 + gen.Uniform(t, "nwide", 24)
			for i := 0; i < n; i++ {
				props[fmt.Sprintf("%c%02d", 'a'+rune((i*7)%26), (i*13)%n)] = map[string]any{}
			}
			m[[]string{"properties", "patternProperties"}[gen.Uniform(t, "widekw", 2)]] = props
		}
		decorateXOrder(t, doc)
		mutated := false
		if gen.Pct(t, "nonnormal", 35) {
			doc, _ = gen.Mutate(t, doc)
			mutated = true
		}
		text := gen.Render(doc)
		var plain any
		if json.Unmarshal(text, &plain) != nil {
			plain = nil
		}
		c := c06Case{Kind: kind, Doc: string(text), Shuffled: string(text)}
		if _, dupErr := strictParse(text); plain != nil && dupErr == nil && !gen.CaseFoldCollision(plain) {
			// (nor is one in which two member names case-fold onto the same keyword: the decoder then keeps the textually last one)
			// (a document with a repeated member name is not the same value once parsed generically: no shuffle then)
			c.Shuffled = string(shuffledText(t, plain))
		}
		f, nt := oracleC06(c)
		r.Eval()
		r.Label("family=decoded")
		r.Label("kind=" + kind)
		r.LabelIf(mutated, "outside normal form (mutated)")
		r.LabelIf(v.HostileName, "hostile member name")
		r.LabelIf(nt, ">=2 properties in a container")
		if nt || v.HostileName {
			r.NonTrivial([]byte(c.Kind+c.Doc), c)
		}
		verdict(t, "C06", "decoded", c, f)
	})
}

func TestReplayC06(t *testing.T) {
	runReplays(t, "C06", func(variant string, raw json.RawMessage) *vstat.Failure {
		if variant == "builder" {
			var steps []builderStep
			if err := json.Unmarshal(raw, &steps); err != nil {
				return &vstat.Failure{Atoms: []vstat.Atom{{Kind: "HARNESS", Detail: err.Error()}}}
			}
			return replayBuilder(steps)
		}
		var c c06Case
		if err := json.Unmarshal(raw, &c); err != nil {
			return &vstat.Failure{Atoms: []vstat.Atom{{Kind: "HARNESS", Detail: err.Error()}}}
		}
		f, _ := oracleC06(c)
		return f
	})
}
