package props

// C04 — Expansion terminates without crashing on every reference graph.
//
// Every job runs in the worker subprocess (bounded stack, recover): the outcome
// must be a result or an error; a panic, a fatal stack overflow and
// non-termination are violations. For graphs without `id`s the number of
// expansion/resolution steps (verif hook) is bounded by the model's acyclic
// unfolding size.

import (
	"encoding/json"
	"fmt"
	"regexp"
	"strings"
	"testing"
	"time"

	"github.com/go-openapi/spec"
	"pgregory.net/rapid"

	"verif/gen"
	"verif/model"
	"verif/vstat"
)

const c04StackMB = 16

type c04Case struct {
	Graph    gen.GraphCase `json:"graph"`
	Refused  []string      `json:"refused,omitempty"`
	Entry    string        `json:"entry"`          // ExpandSpec, ExpandSchema, ExpandSchemaWithBasePath, ExpandParameter, ExpandParameterWithRoot, ExpandResponse, ExpandResponseWithRoot
	Elem     string        `json:"elem,omitempty"` // pointer of the element in the root document (single-element entry points)
	Skip     bool          `json:"skip_schemas"`
	Continue bool          `json:"continue_on_error"`
	Abs      bool          `json:"absolute_circular_ref"`
}

type c04Res struct {
	Err      string `json:"err,omitempty"`
	Steps    int64  `json:"steps"`
	OutNodes int    `json:"out_nodes"`
	Skipped  string `json:"skipped,omitempty"` // entry point not applicable to this element
}

func countNodes(v any) int {
	switch x := v.(type) {
	case map[string]any:
		n := 1
		for _, e := range x {
			n += countNodes(e)
		}
		return n
	case []any:
		n := 1
		for _, e := range x {
			n += countNodes(e)
		}
		return n
	}
	return 1
}

// runEntry executes one expansion entry point (in the worker, or directly for replays of benign cases).
func runEntry(c c04Case) (c04Res, error) {
	var res c04Res
	refused := map[string]bool{}
	for _, u := range c.Refused {
		refused[u] = true
	}
	l := newLoader(c.Graph.Docs, refused)
	var sw spec.Swagger
	if err := json.Unmarshal([]byte(c.Graph.Docs[c.Graph.Root]), &sw); err != nil {
		return res, fmt.Errorf("root does not decode: %w", err)
	}
	opts := &spec.ExpandOptions{RelativeBase: c.Graph.Root, PathLoader: l.load, SkipSchemas: c.Skip, ContinueOnError: c.Continue, AbsoluteCircularRef: c.Abs}
	var out any
	var err error
	elem := func(target any) bool {
		g := c.Graph.Graph()
		n, e := g.Get(model.Pos{Doc: c.Graph.Root, Ptr: c.Elem})
		if e != nil {
			res.Skipped = "no such element"
			return false
		}
		if e := json.Unmarshal(mustJSON(n), target); e != nil {
			res.Skipped = "element does not decode: " + e.Error()
			return false
		}
		return true
	}
	spec.VerifResetSteps()
	switch c.Entry {
	case "ExpandSpec":
		err = spec.ExpandSpec(&sw, opts)
		out = &sw
	case "ExpandSchema":
		var s spec.Schema
		if !elem(&s) {
			return res, nil
		}
		old := spec.PathLoader
		spec.PathLoader = l.load
		err = spec.ExpandSchema(&s, &sw, nil)
		spec.PathLoader = old
		out = &s
	case "ExpandSchemaWithBasePath":
		var s spec.Schema
		if !elem(&s) {
			return res, nil
		}
		err = spec.ExpandSchemaWithBasePath(&s, nil, opts)
		out = &s
	case "ExpandParameter", "ExpandParameterWithRoot":
		var p spec.Parameter
		if !elem(&p) {
			return res, nil
		}
		old := spec.PathLoader
		spec.PathLoader = l.load
		if c.Entry == "ExpandParameter" {
			err = spec.ExpandParameter(&p, c.Graph.Root)
		} else {
			err = spec.ExpandParameterWithRoot(&p, &sw, nil)
		}
		spec.PathLoader = old
		out = &p
	case "ExpandResponse", "ExpandResponseWithRoot":
		var r spec.Response
		if !elem(&r) {
			return res, nil
		}
		old := spec.PathLoader
		spec.PathLoader = l.load
		if c.Entry == "ExpandResponse" {
			err = spec.ExpandResponse(&r, c.Graph.Root)
		} else {
			err = spec.ExpandResponseWithRoot(&r, &sw, nil)
		}
		spec.PathLoader = old
		out = &r
	default:
		return res, fmt.Errorf("unknown entry %q", c.Entry)
	}
	res.Steps = spec.VerifSteps()
	if err != nil {
		res.Err = err.Error()
		if res.Err == "" {
			res.Err = "(empty error text)"
		}
	}
	b, e := json.Marshal(out)
	if e != nil {
		panic("result does not encode: " + e.Error())
	}
	var v any
	if e := json.Unmarshal(b, &v); e != nil {
		panic("result is not JSON: " + e.Error())
	}
	res.OutNodes = countNodes(v)
	return res, nil
}

func init() {
	jobHandlers["c04"] = func(raw json.RawMessage) (any, error) {
		var c c04Case
		if err := json.Unmarshal(raw, &c); err != nil {
			return nil, err
		}
		return runEntry(c)
	}
	jobHandlers["c04batch"] = func(raw json.RawMessage) (any, error) {
		var cs []c04Case
		if err := json.Unmarshal(raw, &cs); err != nil {
			return nil, err
		}
		out := make([]c04Res, len(cs))
		for i, c := range cs {
			r, err := runEntry(c)
			if err != nil {
				return nil, err
			}
			out[i] = r
		}
		return out, nil
	}
}

var relDirID = regexp.MustCompile(`^[^:#]*/`)

func isRelDirID(id string) bool {
	return !strings.Contains(id, "://") && !strings.HasPrefix(id, "#") && !strings.HasPrefix(id, "/") && relDirID.MatchString(id)
}

// k1Shape: the structural matcher of known finding K1 — a reference cycle that
// passes through a schema whose `id` is a relative reference with a directory
// component.
func k1Shape(c gen.GraphCase) bool {
	g := c.Graph()
	found := false
	for doc, d := range g.Docs {
		var scan func(n any, p model.Pos)
		scan = func(n any, p model.Pos) {
			if found {
				return
			}
			switch m := n.(type) {
			case map[string]any:
				if id, ok := m["id"].(string); ok && isRelDirID(id) {
					// do the refs below p lead back to p or to a structural ancestor of p?
					toks := p.Tokens()
					anc := map[model.Pos]bool{}
					a := model.Pos{Doc: doc}
					anc[a] = true
					for _, t := range toks {
						a = a.Child(t)
						anc[a] = true
					}
					seen := map[model.Pos]bool{}
					var stack []model.Pos
					for _, h := range g.RefsBelow(p, model.KSchema) {
						if tp, err := model.Resolve(h.P.Doc, h.Ref); err == nil {
							stack = append(stack, tp)
						}
					}
					for len(stack) > 0 && !found {
						q := stack[len(stack)-1]
						stack = stack[:len(stack)-1]
						if anc[q] {
							found = true
							break
						}
						if seen[q] {
							continue
						}
						seen[q] = true
						// refs anywhere below q (any kind: scan generically)
						qn, err := g.Get(q)
						if err != nil {
							continue
						}
						var refs func(x any)
						refs = func(x any) {
							switch mm := x.(type) {
							case map[string]any:
								if r, ok := mm["$ref"].(string); ok {
									if tp, err := model.Resolve(q.Doc, r); err == nil {
										stack = append(stack, tp)
									}
								}
								for _, k := range model.SortedKeys(mm) {
									refs(mm[k])
								}
							case []any:
								for _, e := range mm {
									refs(e)
								}
							}
						}
						refs(qn)
						// a target inside an ancestor's subtree also re-enters the id scope when the ancestor is revisited
						for an := range anc {
							if q.Doc == an.Doc && strings.HasPrefix(an.Ptr, q.Ptr+"/") {
								found = true
							}
						}
					}
				}
				for _, k := range model.SortedKeys(m) {
					scan(m[k], p.Child(k))
				}
			case []any:
				for i, e := range m {
					scan(e, p.Child(fmt.Sprint(i)))
				}
			}
		}
		scan(d, model.Pos{Doc: doc})
	}
	return found
}

func hasIDs(c gen.GraphCase) bool {
	for _, s := range c.Docs {
		if strings.Contains(s, `"id":`) {
			return true
		}
	}
	return false
}

// unfoldBound: the model's acyclic-unfolding size for the elements the entry point processes.
func unfoldBound(c c04Case) (u int, capped bool) {
	g := c.Graph.Graph()
	for _, r := range c.Refused {
		g.Refused[r] = true
	}
	const limit = 300000
	var elems []model.Elem
	if c.Entry == "ExpandSpec" {
		elems = rootElems(g, c.Graph.Root)
	} else {
		k := model.KSchema
		if strings.Contains(c.Entry, "Parameter") {
			k = model.KParam
		} else if strings.Contains(c.Entry, "Response") {
			k = model.KResponse
		}
		elems = []model.Elem{{P: model.Pos{Doc: c.Graph.Root, Ptr: c.Elem}, K: k}}
	}
	for _, el := range elems {
		u += g.UnfoldSize(el.P, el.K, limit)
		if u >= limit {
			return u, true
		}
	}
	return u, false
}

// Calibrated on the unchanged tree (see DESIGN.md §C04): observed maximum of
// steps/(U+8) is about 1.6 over >10^5 random graphs; the bound is more than twice that.
const (
	c04StepFactor = 4
	c04StepConst  = 64
)

func judgeC04(f *vstat.Failure, c c04Case, o callOutcome) (res c04Res) {
	known := ""
	switch {
	case o.Hung:
		if k1Shape(c.Graph) {
			known = "K1"
		}
		f.AddKnown(known, "HANG", c.Entry, "no answer within the watchdog (re-run alone): %s", tailOf(o.Stderr))
	case o.Died:
		if strings.Contains(o.Stderr, "stack overflow") || strings.Contains(o.Stderr, "goroutine stack exceeds") {
			if k1Shape(c.Graph) {
				known = "K1"
			}
			f.AddKnown(known, "STACK-OVERFLOW", c.Entry, "unbounded recursion: the worker died with %s", tailOf(o.Stderr))
		} else {
			f.Add("FATAL", c.Entry, "the worker died: %s", tailOf(o.Stderr))
		}
	case strings.HasPrefix(o.Res.Panic, "harness:"):
		f.Add("HARNESS", c.Entry, "%s", o.Res.Panic)
	case o.Res.Panic != "":
		f.Add("PANIC", c.Entry, "%s", o.Res.Panic)
	default:
		if err := json.Unmarshal(o.Res.Data, &res); err != nil {
			f.Add("HARNESS", c.Entry, "bad result: %v", err)
			return
		}
		if res.Skipped != "" {
			return
		}
		if !hasIDs(c.Graph) {
			u, capped := unfoldBound(c)
			if !capped {
				if res.Steps > int64(c04StepFactor*u+c04StepConst) {
					f.Add("WORK-BOUND", c.Entry, "%d expansion steps for an acyclic unfolding of %d nodes (bound %d*U+%d)", res.Steps, u, c04StepFactor, c04StepConst)
				}
				rootNodes := 0
				var v any
				if json.Unmarshal([]byte(c.Graph.Docs[c.Graph.Root]), &v) == nil {
					rootNodes = countNodes(v)
				}
				if res.OutNodes > 12*u+rootNodes+64 {
					f.Add("OUTPUT-SIZE", c.Entry, "result has %d JSON nodes for an acyclic unfolding of %d schema/element nodes and a root of %d nodes", res.OutNodes, u, rootNodes)
				}
			}
		}
	}
	return
}

func tailOf(s string) string {
	if i := strings.Index(s, "fatal error:"); i >= 0 {
		s = s[i:]
	} else if i := strings.Index(s, "runtime: goroutine stack exceeds"); i >= 0 {
		s = s[i:]
	}
	if len(s) > 400 {
		s = s[:400]
	}
	return strings.TrimSpace(s)
}

func oracleC04(c c04Case) (*vstat.Failure, c04Res) {
	f := &vstat.Failure{}
	o := callWorker(c04StackMB, "c04", c, 20*time.Second)
	if o.Hung {
		// the watchdog is not the oracle: re-run alone with a generous limit
		o = callWorker(c04StackMB, "c04", c, 120*time.Second)
	}
	res := judgeC04(f, c, o)
	return f, res
}

var c04Entries = []string{"ExpandSpec", "ExpandSpec", "ExpandSpec", "ExpandSchema", "ExpandSchemaWithBasePath", "ExpandParameter", "ExpandParameterWithRoot", "ExpandResponse", "ExpandResponseWithRoot"}

func genC04(t *rapid.T) c04Case {
	o := gen.DefaultGraphOpts()
	o.CycleBias = 25
	o.DagPct = 10
	o.RefPct = 45
	withIDs := gen.Pct(t, "ids", 35)
	o.IDs = withIDs
	g := gen.Graph(t, o)
	var refused []string
	if gen.Pct(t, "faults", 40) {
		g, refused = gen.Break(t, g, 60, 8)
	}
	c := c04Case{Graph: g, Refused: refused, Entry: c04Entries[gen.Uniform(t, "entry", len(c04Entries))],
		Skip: rapid.Bool().Draw(t, "skip"), Continue: rapid.Bool().Draw(t, "continue"), Abs: rapid.Bool().Draw(t, "abs")}
	if c.Entry != "ExpandSpec" {
		mg := g.Graph()
		var cands []string
		for _, el := range mg.TopElements(g.Root) {
			switch {
			case strings.Contains(c.Entry, "Schema") && el.K == model.KSchema,
				strings.Contains(c.Entry, "Parameter") && el.K == model.KParam,
				strings.Contains(c.Entry, "Response") && el.K == model.KResponse:
				cands = append(cands, el.P.Ptr)
			}
		}
		if len(cands) == 0 {
			c.Entry = "ExpandSpec"
		} else {
			c.Elem = cands[gen.Uniform(t, "elem", len(cands))]
		}
	}
	return c
}

func TestC04(t *testing.T) {
	r := rec("C04")
	runC04Exhaustive(t, r)
	rapid.Check(t, func(t *rapid.T) {
		c := genC04(t)
		cl := gen.Classify(c.Graph)
		f, res := oracleC04(c)
		r.Eval()
		if !hasIDs(c.Graph) && res.Skipped == "" {
			if u, capped := unfoldBound(c); !capped {
				r.Max("max:steps*100/(U+8)", res.Steps*100/int64(u+8))
				r.Max("max:outnodes*100/(U+rootnodes+8)", int64(res.OutNodes)*100/int64(u+8))
			}
		}
		r.Label("entry=" + c.Entry)
		r.LabelIf(cl.Cyclic, "cyclic")
		r.LabelIf(hasIDs(c.Graph), "has id")
		r.LabelIf(len(c.Refused) > 0 || strings.Contains(c.Graph.Docs[c.Graph.Root], "x-scalars"), "faults injected")
		r.LabelIf(res.Err != "", "outcome=error")
		r.LabelIf(res.Err == "" && res.Skipped == "", "outcome=result")
		r.LabelIf(c.Skip, "SkipSchemas")
		r.LabelIf(c.Continue, "ContinueOnError")
		if cl.Cyclic || hasIDs(c.Graph) || len(c.Refused) > 0 {
			r.NonTrivial(mustJSON(c), c)
		}
		verdict(t, "C04", "random", c, f)
		c04Sweep(t, r, c.Graph.Docs[c.Graph.Root])
	})
}

// The dangling-pointer sweep: every list member of the root document (as `items`, `allOf`, `parameters`,
// `enum`, `required`, ... - the members whose typed lookups parse index tokens themselves) is pointed at with
// index-like tokens that designate nothing. Expanding a schema that is such a `$ref` must end in an error
// (or, for C04's purpose, in anything but a crash), against the typed root and against the generic one.
type c04SweepCase struct {
	Doc string `json:"doc"`
	Ref string `json:"ref"`
}

func oracleC04Sweep(c c04SweepCase) *vstat.Failure {
	f := &vstat.Failure{}
	for _, typed := range []bool{true, false} {
		var root any
		if typed {
			sw := &spec.Swagger{}
			if json.Unmarshal([]byte(c.Doc), sw) != nil {
				return f
			}
			root = sw
		} else {
			var m map[string]any
			if json.Unmarshal([]byte(c.Doc), &m) != nil {
				return f
			}
			root = m
		}
		what := "ExpandSchema(typed root)"
		if !typed {
			what = "ExpandSchema(generic root)"
		}
		guard(f, what, func() {
			sch := spec.RefSchema(c.Ref)
			_ = spec.ExpandSchema(sch, root, nil)
		})
		guard(f, strings.Replace(what, "ExpandSchema", "ResolveRef", 1), func() {
			if r, err := spec.NewRef(c.Ref); err == nil {
				_, _ = spec.ResolveRef(root, &r)
			}
		})
	}
	return f
}

func c04Sweep(t *rapid.T, r *vstat.Recorder, doc string) {
	var v any
	if json.Unmarshal([]byte(doc), &v) != nil {
		return
	}
	lists := gen.ListMembers(v, "", 8, nil)
	if len(lists) == 0 {
		return
	}
	// at most 24 pointers per case, spread over the document
	start, stride := gen.Uniform(t, "sweep start", len(lists)), 1
	if len(lists) > 24 {
		stride = len(lists) / 24
	}
	for n, i := 0, start; n < 24 && n < len(lists); n, i = n+1, (i+stride)%len(lists) {
		c := c04SweepCase{Doc: doc, Ref: gen.FragmentOf(lists[i] + gen.OddIndexes[(n+start)%len(gen.OddIndexes)])}
		f := oracleC04Sweep(c)
		r.Count("dangling-sweep lookups", 1)
		verdict(t, "C04", "dangling-sweep", c, f)
	}
}

func TestReplayC04(t *testing.T) {
	runReplays(t, "C04", func(variant string, raw json.RawMessage) *vstat.Failure {
		if variant == "dangling-sweep" {
			var c c04SweepCase
			if err := json.Unmarshal(raw, &c); err != nil {
				return &vstat.Failure{Atoms: []vstat.Atom{{Kind: "HARNESS", Detail: err.Error()}}}
			}
			return oracleC04Sweep(c)
		}
		var c c04Case
		if err := json.Unmarshal(raw, &c); err != nil {
			return &vstat.Failure{Atoms: []vstat.Atom{{Kind: "HARNESS", Detail: err.Error()}}}
		}
		f, _ := oracleC04(c)
		return f
	})
}
