package props

// C01 — JSON round-trip is lossless for the whole Swagger 2.0 vocabulary.

import (
	"encoding/json"
	"fmt"
	"os"
	"sort"
	"strings"
	"testing"

	"github.com/go-openapi/spec"
	"pgregory.net/rapid"

	"verif/gen"
	"verif/model"
	"verif/vstat"
)

type codecCase struct {
	Kind string `json:"kind"`
	Doc  string `json:"doc"` // JSON text
}

// newTarget returns a pointer to a fresh value of the Go type that decodes kind.
func newTarget(kind string) any {
	switch kind {
	case "swagger":
		return new(spec.Swagger)
	case "schema":
		return new(spec.Schema)
	case "parameter":
		return new(spec.Parameter)
	case "items":
		return new(spec.Items)
	case "header":
		return new(spec.Header)
	case "response":
		return new(spec.Response)
	case "responses":
		return new(spec.Responses)
	case "operation":
		return new(spec.Operation)
	case "pathItem":
		return new(spec.PathItem)
	case "paths":
		return new(spec.Paths)
	case "securityScheme":
		return new(spec.SecurityScheme)
	case "info":
		return new(spec.Info)
	case "contact":
		return new(spec.ContactInfo)
	case "license":
		return new(spec.License)
	case "tag":
		return new(spec.Tag)
	case "xml":
		return new(spec.XMLObject)
	case "externalDocs":
		return new(spec.ExternalDocumentation)
	}
	panic("no decode target for kind " + kind)
}

// k5Members: required string members that the encoders drop when empty (known finding K5).
var k5Members = map[string]bool{"name": true, "title": true, "version": true, "url": true, "tokenUrl": true, "description": false}

// roundTrip decodes doc into the type of kind, encodes it and diffs.
func roundTripJSON(f *vstat.Failure, kind string, doc []byte) {
	var in any
	if err := json.Unmarshal(doc, &in); err != nil {
		f.Add("HARNESS", "", "case is not JSON: %v", err)
		return
	}
	guard(f, "codec", func() {
		tgt := newTarget(kind)
		if err := json.Unmarshal(doc, tgt); err != nil {
			f.Add("DECODE-ERROR", "", "normal-form %s does not decode: %v", kind, err)
			return
		}
		b, err := json.Marshal(tgt)
		if err != nil {
			f.Add("ENCODE-ERROR", "", "decoded %s does not encode: %v", kind, err)
			return
		}
		var out any
		if err := json.Unmarshal(b, &out); err != nil {
			f.Add("MALFORMED", "", "encoding of %s is not valid JSON: %v: %s", kind, err, b)
			return
		}
		for _, a := range model.Diff(in, out) {
			known := ""
			if a.Kind == "LOST" {
				if s, ok := a.A.(string); ok && s == "" && k5Members[model.LastToken(a.Path)] {
					known = "K5"
				}
			}
			f.AddKnown(known, a.Kind, a.Path, "%s", a.String())
		}
	})
}

func vocabLabels(r *vstat.Recorder, v *gen.V, kind string) bool {
	r.Label("kind=" + kind)
	r.LabelIf(v.HostileName, "hostile member name")
	r.LabelIf(v.ZeroValid, "zero-valued validation")
	r.LabelIf(v.Extension, "vendor extension")
	r.LabelIf(v.FreeNull, "null inside free-form payload")
	r.LabelIf(len(v.EmptyReq) > 0, "required string drawn empty (K5 steering)")
	r.LabelIf(v.MaxDepth >= 2, "nesting depth>=2")
	r.LabelIf(v.Keywords >= 3, "keywords>=3")
	return v.Keywords >= 3 || v.MaxDepth >= 2 || v.HostileName || v.ZeroValid || v.Extension
}

func TestC01(t *testing.T) {
	r := rec("C01")
	vocabSelfCheck(t)
	// deterministic single-keyword sweep: every keyword of every kind alone on a minimal instance
	sweep := gen.Sweep()
	sweepGen := rapid.Custom(func(t *rapid.T) []codecCase {
		var out []codecCase
		for _, sc := range sweep {
			v := gen.NewV(t, gen.VocabOpts{Hostile: true, Refs: true, MaxDepth: 1})
			kind := sc.Kind
			out = append(out, codecCase{Kind: kind, Doc: string(mustJSON(v.InstanceOnly(sc.Kind, sc.Flavour, sc.Keyword)))})
		}
		return out
	})
	seed := 1
	fmt.Sscan(os.Getenv("VERIF_SEED"), &seed)
	for rep := 0; rep < 3; rep++ {
		for i, c := range sweepGen.Example(seed*7 + rep) {
			f := &vstat.Failure{}
			roundTripJSON(f, c.Kind, []byte(c.Doc))
			r.Eval()
			r.Label("sweep")
			if rep == 0 && i%40 == 0 {
				r.Sample(c)
			}
			verdict(t, "C01", "sweep:"+sweep[i].String(), c, f)
		}
	}
	rapid.Check(t, func(t *rapid.T) {
		kind := gen.Kinds[gen.Uniform(t, "kind", len(gen.Kinds))]
		o := gen.VocabOpts{Hostile: true, Refs: true}
		if gen.Pct(t, "k5", 10) {
			o.EmptyReqPct = 15
		}
		v := gen.NewV(t, o)
		c := codecCase{Kind: kind, Doc: string(mustJSON(v.Instance(kind)))}
		f := &vstat.Failure{}
		roundTripJSON(f, c.Kind, []byte(c.Doc))
		r.Eval()
		if vocabLabels(r, v, kind) {
			r.NonTrivial([]byte(c.Kind+c.Doc), c)
		}
		verdict(t, "C01", "random", c, f)
	})
}

func TestReplayC01(t *testing.T) {
	runReplays(t, "C01", func(variant string, raw json.RawMessage) *vstat.Failure {
		var c codecCase
		f := &vstat.Failure{}
		if err := json.Unmarshal(raw, &c); err != nil {
			f.Add("HARNESS", "", "%v", err)
			return f
		}
		roundTripJSON(f, c.Kind, []byte(c.Doc))
		return f
	})
}

// vocabSelfCheck: the hand-written vocabulary table must cover exactly the
// keywords of the meta-schemas shipped with the package.
func vocabSelfCheck(t *testing.T) {
	repo := os.Getenv("VERIF_REPO")
	if repo == "" {
		repo = "/repo"
	}
	load := func(p string) map[string]any {
		b, err := os.ReadFile(p)
		if err != nil {
			t.Fatalf("harness: %v", err)
		}
		var m map[string]any
		if err := json.Unmarshal(b, &m); err != nil {
			t.Fatalf("harness: %v", err)
		}
		return m
	}
	sw := load(repo + "/schemas/v2/schema.json")
	d4 := load(repo + "/schemas/jsonschema-draft-04.json")
	defs := sw["definitions"].(map[string]any)
	propsOf := func(names ...string) map[string]bool {
		out := map[string]bool{}
		for _, n := range names {
			var d map[string]any
			if n == "" {
				d = sw
			} else if n == "draft4" {
				d = d4
			} else {
				d = defs[n].(map[string]any)
			}
			for k := range d["properties"].(map[string]any) {
				out[k] = true
			}
		}
		return out
	}
	want := map[string]map[string]bool{
		"swagger":        propsOf(""),
		"schema":         propsOf("schema", "draft4"),
		"parameter":      propsOf("bodyParameter", "headerParameterSubSchema", "queryParameterSubSchema", "formDataParameterSubSchema", "pathParameterSubSchema", "jsonReference"),
		"items":          propsOf("primitivesItems"),
		"header":         propsOf("header"),
		"response":       propsOf("response", "jsonReference"),
		"operation":      propsOf("operation"),
		"pathItem":       propsOf("pathItem"),
		"securityScheme": propsOf("basicAuthenticationSecurity", "apiKeySecurity", "oauth2ImplicitSecurity", "oauth2PasswordSecurity", "oauth2ApplicationSecurity", "oauth2AccessCodeSecurity"),
		"info":           propsOf("info"),
		"contact":        propsOf("contact"),
		"license":        propsOf("license"),
		"tag":            propsOf("tag"),
		"xml":            propsOf("xml"),
		"externalDocs":   propsOf("externalDocs"),
	}
	for kind, w := range want {
		have := map[string]bool{}
		for _, k := range gen.KeywordsOf(kind) {
			have[k] = true
		}
		var missing, extra []string
		for k := range w {
			if !have[k] {
				missing = append(missing, k)
			}
		}
		for k := range have {
			if !w[k] {
				extra = append(extra, k)
			}
		}
		sort.Strings(missing)
		sort.Strings(extra)
		if len(missing)+len(extra) > 0 {
			t.Fatalf("harness: vocabulary table for %s differs from the meta-schema: missing %v, not in meta-schema %v", kind, missing, extra)
		}
	}
	_ = strings.TrimSpace
}
