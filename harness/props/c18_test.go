package props

// C18 — A resolution cache is transparent; documents are fetched at most once.

import (
	"bytes"
	"encoding/json"
	"fmt"
	"net/url"
	"path"
	"sort"
	"testing"

	"github.com/go-openapi/spec"
	"pgregory.net/rapid"

	"verif/gen"
	"verif/model"
	"verif/vstat"
)

type c18Case struct {
	Graph     gen.GraphCase `json:"graph"`
	Calls     []elemCall    `json:"calls"`     // a sequence of expansions of elements of the same root
	Preloaded []string      `json:"preloaded"` // documents put into the cache beforehand
}

func canonicalURL(s string) bool {
	u, err := url.Parse(s)
	if err != nil || u.Scheme == "" || u.Fragment != "" || !path.IsAbs(u.Path) || path.Clean(u.Path) != u.Path {
		return false
	}
	return true
}

func sameOutcome(f *vstat.Failure, what string, gin *model.Graph, root string, call elemCall, ref, got elemRun, acyclic bool) {
	where := fmt.Sprintf("%s: %s(%s) %s", what, call.Entry, call.Root, call.Elem)
	switch {
	case got.Panic != "":
		f.Add("PANIC", where, "%s", got.Panic)
	case (ref.Err == nil) != (got.Err == nil):
		f.Add("CACHE-CHANGES-RESULT", where, "without cache: err=%v; with the cache: err=%v", ref.Err, got.Err)
	case ref.Err != nil:
	case acyclic && !bytes.Equal(ref.OutBytes, got.OutBytes):
		f.Add("CACHE-CHANGES-RESULT", where, "acyclic element: without cache %s, with the cache %s", clip(ref.OutBytes), clip(got.OutBytes))
	case !acyclic:
		checkElemMeaning(f, gin, root, call, got.Out, false)
	}
}

func oracleC18(c c18Case) (*vstat.Failure, bool) {
	f := &vstat.Failure{}
	gin := c.Graph.Graph()
	root := c.Graph.Root
	nontrivial := false
	reused := newLogCache()
	reusedLoads := map[string]int{}
	for i, call := range c.Calls {
		el := model.Elem{P: model.Pos{Doc: root, Ptr: call.Elem}, K: kindOfEntry(call.Entry)}
		acyclic := gin.Acyclic([]model.Elem{el})
		ref := runElem(c.Graph, call, nil, nil)
		if ref.NotUsable != "" {
			continue
		}
		if ref.Panic != "" {
			f.Add("PANIC", call.Elem, "%s", ref.Panic)
			return f, nontrivial
		}
		external := map[string]bool{}
		for _, u := range ref.Loads {
			external[u] = true
		}
		// (1) no cache: each document at most once
		seen := map[string]int{}
		for _, u := range ref.Loads {
			seen[u]++
			if seen[u] == 2 {
				f.Add("LOADED-TWICE", u, "no cache, %s %s: document %s requested %d times in one expansion", call.Entry, call.Elem, u, seen[u])
			}
			if !canonicalURL(u) {
				f.Add("NOT-CANONICAL", u, "the loader was asked for %q, which is not a canonical absolute URL", u)
			}
		}
		// (2) fresh cache
		fresh := newLogCache()
		got := runElem(c.Graph, call, fresh, nil)
		sameOutcome(f, "fresh cache", gin, root, call, ref, got, acyclic)
		seen = map[string]int{}
		for _, u := range got.Loads {
			seen[u]++
			if seen[u] == 2 {
				f.Add("LOADED-TWICE", u, "fresh cache, %s %s: document %s requested twice", call.Entry, call.Elem, u)
			}
		}
		for _, k := range fresh.sets {
			if !canonicalURL(k) {
				f.Add("NOT-CANONICAL", k, "cache key %q is not a canonical absolute URL", k)
			}
		}
		// (3) cache pre-loaded with a subset of the documents
		pre := newLogCache()
		preset := map[string]bool{}
		for _, u := range c.Preloaded {
			var v any
			if json.Unmarshal([]byte(c.Graph.Docs[u]), &v) == nil {
				pre.m[u] = v
				preset[u] = true
			}
		}
		got = runElem(c.Graph, call, pre, nil)
		sameOutcome(f, "pre-loaded cache", gin, root, call, ref, got, acyclic)
		for _, u := range got.Loads {
			if preset[u] {
				f.Add("PRELOADED-REQUESTED", u, "%s %s: document %s is in the supplied cache, yet it was requested from the loader", call.Entry, call.Elem, u)
			}
		}
		if len(external) >= 2 && len(preset) > 0 {
			nontrivial = true
		}
		// (4) one cache reused across the whole sequence
		got = runElem(c.Graph, call, reused, nil)
		sameOutcome(f, fmt.Sprintf("cache reused (call %d of the sequence)", i), gin, root, call, ref, got, acyclic)
		for _, u := range got.Loads {
			reusedLoads[u]++
			if reusedLoads[u] == 2 {
				f.Add("LOADED-TWICE", u, "reused cache: document %s requested again by call %d (%s %s) although an earlier expansion had put it into the cache", u, i, call.Entry, call.Elem)
			}
		}
		if i > 0 && len(external) >= 2 {
			nontrivial = true
		}
		if !f.Empty() {
			return f, nontrivial
		}
	}
	// ExpandSpec: at-most-once
	run := runExpandSpec(c.Graph, nil, spec.ExpandOptions{})
	seen := map[string]int{}
	for _, u := range run.Loads {
		seen[u]++
		if seen[u] == 2 {
			f.Add("LOADED-TWICE", u, "ExpandSpec: document %s requested twice in one expansion", u)
		}
		if !canonicalURL(u) {
			f.Add("NOT-CANONICAL", u, "ExpandSpec: the loader was asked for %q, which is not a canonical absolute URL", u)
		}
	}
	return f, nontrivial
}

func genC18(t *rapid.T) c18Case {
	o := gen.DefaultGraphOpts()
	o.DagPct = 55
	g := gen.Graph(t, o)
	mg := g.Graph()
	var cands []elemCall
	for _, call := range callsFor(mg, g.Root, false) {
		// entry points that accept a cache; the root-based ones are kept to their documented domain by using the location variant for multi-document graphs
		switch call.Entry {
		case "ExpandSchemaWithBasePath":
			cands = append(cands, call)
		}
	}
	c := c18Case{Graph: g}
	if len(cands) > 0 {
		n := 1 + gen.Uniform(t, "ncalls", 4)
		for i := 0; i < n; i++ {
			c.Calls = append(c.Calls, cands[gen.Uniform(t, "call", len(cands))])
		}
	}
	docs := make([]string, 0, len(g.Docs))
	for u := range g.Docs {
		docs = append(docs, u)
	}
	sort.Strings(docs)
	for _, u := range docs {
		if rapid.Bool().Draw(t, "preload") {
			c.Preloaded = append(c.Preloaded, u)
		}
	}
	return c
}

// c18SelfCase: self-contained schemas (their `$ref`s point into their own `definitions`) expanded one after the
// other with ExpandSchema(schema, nil, cache) on one caller-supplied cache: each is its own root, the names of
// the definitions are the same in all of them, the content is not.
type c18SelfCase struct {
	Schemas []string `json:"schemas"`
}

func genC18Self(t *rapid.T) c18SelfCase {
	var c c18SelfCase
	names := []string{"a", "b", "c", "A", "d e"}
	nd := 1 + gen.Uniform(t, "selfdefs", 4)
	for i, n := 0, 2+gen.Uniform(t, "selfschemas", 2); i < n; i++ {
		lbl := func(k string) string { return fmt.Sprintf("s%d-%s", i, k) }
		defs := map[string]any{}
		for j := 0; j < nd; j++ {
			d := map[string]any{"title": lbl("def-" + names[j])}
			if j+1 < nd && rapid.Bool().Draw(t, "selfchain") {
				// acyclic by construction: a definition refers to later ones only
				d["properties"] = map[string]any{"next": map[string]any{"$ref": gen.FragmentOf("/definitions/" + names[j+1+gen.Uniform(t, "selfnext", nd-j-1)])}}
			}
			defs[names[j]] = d
		}
		sch := map[string]any{"title": lbl("root"), "definitions": defs, "properties": map[string]any{}}
		for j, m := 0, 1+gen.Uniform(t, "selfprops", 3); j < m; j++ {
			sch["properties"].(map[string]any)[fmt.Sprintf("p%d", j)] = map[string]any{"$ref": gen.FragmentOf("/definitions/" + names[gen.Uniform(t, "selftarget", nd)])}
		}
		c.Schemas = append(c.Schemas, string(mustJSON(sch)))
	}
	return c
}

func oracleC18Self(c c18SelfCase) *vstat.Failure {
	f := &vstat.Failure{}
	cache := newLogCache()
	expand := func(txt string, cache spec.ResolutionCache) (out []byte, err error, panicked string) {
		defer func() {
			if r := recover(); r != nil {
				panicked = fmt.Sprint(r)
			}
		}()
		var s spec.Schema
		if e := json.Unmarshal([]byte(txt), &s); e != nil {
			return nil, nil, "harness: " + e.Error()
		}
		err = spec.ExpandSchema(&s, nil, cache)
		out, _ = json.Marshal(&s)
		return
	}
	for i, txt := range c.Schemas {
		where := fmt.Sprintf("self-rooted schema %d of %d", i, len(c.Schemas))
		want, werr, wp := expand(txt, nil)
		got, gerr, gp := expand(txt, cache)
		switch {
		case wp != "" || gp != "":
			f.Add("PANIC", where, "%s %s", wp, gp)
		case (werr == nil) != (gerr == nil):
			f.Add("CACHE-CHANGES-RESULT", where, "ExpandSchema(schema, nil, nil): err=%v; with the cache that served the earlier schemas: err=%v", werr, gerr)
		case werr == nil && !bytes.Equal(want, got):
			f.Add("CACHE-CHANGES-RESULT", where, "ExpandSchema(schema, nil, nil) gives %s; with the cache that served the earlier schemas %s", clip(want), clip(got))
		}
		if !f.Empty() {
			break
		}
	}
	return f
}

func TestC18(t *testing.T) {
	r := rec("C18")
	rapid.Check(t, func(t *rapid.T) {
		if gen.Pct(t, "selfrooted", 12) {
			sc := genC18Self(t)
			fs := oracleC18Self(sc)
			r.Eval()
			r.Label("self-rooted schemas sharing one cache")
			r.NonTrivial(mustJSON(sc), sc)
			verdict(t, "C18", "selfrooted", sc, fs)
			return
		}
		c := genC18(t)
		// the root-based entry points with a cache, on their own domain
		if gen.Pct(t, "rootbased", 35) {
			o := gen.DefaultGraphOpts()
			o.OnlyFragAbs = true
			g := gen.Graph(t, o)
			c = c18Case{Graph: g, Preloaded: c.Preloaded}
			calls := callsFor(g.Graph(), g.Root, true)
			if len(calls) > 0 {
				for i, n := 0, 1+gen.Uniform(t, "ncalls2", 4); i < n; i++ {
					c.Calls = append(c.Calls, calls[gen.Uniform(t, "call2", len(calls))])
				}
			}
			var kept []string
			for _, u := range c.Preloaded {
				if _, ok := g.Docs[u]; ok && u != g.Root {
					kept = append(kept, u)
				}
			}
			c.Preloaded = kept
		}
		cl := gen.Classify(c.Graph)
		vstat.InFlight("C18", "cache", c)
		f, nt := oracleC18(c)
		vstat.ClearInFlight("C18")
		r.Eval()
		r.Count("expansions compared (x4 cache states)", len(c.Calls))
		r.LabelIf(cl.Cyclic, "cyclic")
		r.LabelIf(cl.NDocs > 1, "multi-document")
		r.LabelIf(len(c.Preloaded) > 0, "pre-loaded documents")
		r.LabelIf(len(c.Calls) > 1, "cache reused across >=2 expansions")
		for _, call := range c.Calls {
			r.Label("entry=" + call.Entry)
		}
		if nt {
			r.NonTrivial(mustJSON(c), c)
		}
		verdict(t, "C18", "cache", c, f)
	})
}

func TestReplayC18(t *testing.T) {
	runReplays(t, "C18", func(variant string, raw json.RawMessage) *vstat.Failure {
		if variant == "selfrooted" {
			var sc c18SelfCase
			if err := json.Unmarshal(raw, &sc); err != nil {
				return &vstat.Failure{Atoms: []vstat.Atom{{Kind: "HARNESS", Detail: err.Error()}}}
			}
			return oracleC18Self(sc)
		}
		var c c18Case
		if err := json.Unmarshal(raw, &c); err != nil {
			return &vstat.Failure{Atoms: []vstat.Atom{{Kind: "HARNESS", Detail: err.Error()}}}
		}
		f, _ := oracleC18(c)
		return f
	})
}
