package props

// C12 — $ref targets are located as RFC 3986 reference resolution prescribes.
//
// Observed through the public API only: the URL the document loader receives.

import (
	"encoding/json"
	"fmt"
	"net/url"
	"strings"
	"testing"
	"unicode/utf8"

	"github.com/go-openapi/spec"
	"pgregory.net/rapid"

	"verif/gen"
	"verif/vstat"
)

type c12Case struct {
	Base string `json:"base"` // URL of the document that contains the $ref
	Ref  string `json:"ref"`
	Via  string `json:"via"` // resolve: ResolveRefWithBase with that base; expand: the $ref sits in a document at Base imported by another root
}

var c12Segs = []string{"a", "b.json", ".", "..", "c%20d", "é", "x.y", "%41", "e%25f", "..a", "..."} // ("..a" and "..." are ordinary names)
var c12Bases = []string{"file:///r.json", "file:///d1/r.json", "file:///d1/d2/r.json", "http://h.example/d1/r.json", "https://h.example:8443/r.json", "http://h.example/r.json", "file:///d1/models/pet", "http://h.example/d1/api"}

const c12Root = "file:///zz/top/root.json"

// loaderURLs runs the observation and returns the URLs requested besides the documents we serve ourselves.
// c12Title: (via "expand") the title found, after expansion, where the $ref under test stood. The document the
// $ref designates answers {"definitions":{"x":{"$ref":"#/definitions/y"},"y":{"title":"Y@<requested URL>"}}}:
// the fragment-only hop inside it must be taken in that document, not in the one the resolver came from.
var c12Title string

func c12Observe(c c12Case) (got []string, err error, panicked string) {
	c12Title = ""
	defer func() {
		if r := recover(); r != nil {
			panicked = fmt.Sprint(r)
		}
	}()
	switch c.Via {
	case "resolve":
		r, e := spec.NewRef(c.Ref)
		if e != nil {
			return nil, e, ""
		}
		_, err = spec.ResolveRefWithBase(nil, &r, &spec.ExpandOptions{RelativeBase: c.Base, PathLoader: func(p string) (json.RawMessage, error) {
			got = append(got, p)
			return json.RawMessage(`{"definitions":{"x":{"title":"T"}}}`), nil
		}})
		return got, err, ""
	case "chain":
		// the $ref under test is the last hop of a parameter chain inside an imported document: the path item of
		// the root is imported from the document at Base; its first parameter hops into another directory, its
		// second one hops within the document (#/parameters/q -> #/parameters/r) to a parameter that is the $ref
		const elsewhere = "file:///zz/elsewhere/dir/params.json"
		tgt := map[string]any{"name": "n", "in": "query", "type": "string", "definitions": map[string]any{"x": map[string]any{"name": "x", "in": "query", "type": "string"}}}
		mid := map[string]any{
			"parameters":  map[string]any{"first": map[string]any{"$ref": elsewhere + "#/parameters/p"}, "q": map[string]any{"$ref": "#/parameters/r"}, "r": map[string]any{"$ref": c.Ref}},
			"paths":       map[string]any{"/x": map[string]any{"parameters": []any{map[string]any{"$ref": "#/parameters/first"}, map[string]any{"$ref": "#/parameters/q"}}}},
			"definitions": map[string]any{"x": map[string]any{"name": "x-in-base", "in": "query", "type": "string"}},
			"name":        "base-as-parameter", "in": "query", "type": "string",
		}
		root := map[string]any{"swagger": "2.0", "info": map[string]any{"title": "t", "version": "v"}, "paths": map[string]any{"/x": map[string]any{"$ref": c.Base + "#/paths/~1x"}}}
		var sw spec.Swagger
		if e := json.Unmarshal(mustJSON(root), &sw); e != nil {
			return nil, e, ""
		}
		err = spec.ExpandSpec(&sw, &spec.ExpandOptions{RelativeBase: c12Root, PathLoader: func(p string) (json.RawMessage, error) {
			pu, _ := url.Parse(p)
			bu, _ := url.Parse(c.Base)
			switch {
			case sameURL(pu, bu):
				return mustJSON(mid), nil
			case p == c12Root:
				return mustJSON(root), nil
			case p == elsewhere:
				return json.RawMessage(`{"parameters":{"p":{"name":"elsewhere","in":"query","type":"string"}}}`), nil
			}
			got = append(got, p)
			return mustJSON(tgt), nil
		}})
		return got, err, ""
	default:
		mid := map[string]any{"definitions": map[string]any{"m": map[string]any{"title": "M", "properties": map[string]any{"p": map[string]any{"$ref": c.Ref}}}, "x": map[string]any{"title": "X-in-base"}, "y": map[string]any{"title": "Y-in-base"}}}
		root := map[string]any{"swagger": "2.0", "info": map[string]any{"title": "t", "version": "v"}, "paths": map[string]any{},
			"definitions": map[string]any{"d": map[string]any{"$ref": c.Base + "#/definitions/m"}, "x": map[string]any{"title": "X-in-root"}, "y": map[string]any{"title": "Y-in-root"}}}
		var sw spec.Swagger
		if e := json.Unmarshal(mustJSON(root), &sw); e != nil {
			return nil, e, ""
		}
		err = spec.ExpandSpec(&sw, &spec.ExpandOptions{RelativeBase: c12Root, PathLoader: func(p string) (json.RawMessage, error) {
			pu, _ := url.Parse(p)
			bu, _ := url.Parse(c.Base)
			switch {
			case sameURL(pu, bu):
				return mustJSON(mid), nil
			case p == c12Root:
				return mustJSON(root), nil
			}
			got = append(got, p)
			return mustJSON(map[string]any{"definitions": map[string]any{"x": map[string]any{"$ref": "#/definitions/y"}, "y": map[string]any{"title": "Y@" + p}}}), nil
		}})
		if d, ok := sw.Definitions["d"]; ok && err == nil {
			if pp, ok := d.Properties["p"]; ok {
				c12Title = pp.Title
			}
		}
		return got, err, ""
	}
}

func sameURL(a, b *url.URL) bool {
	return a != nil && b != nil && a.Scheme == b.Scheme && a.Host == b.Host && a.Path == b.Path
}

func oracleC12(c c12Case) *vstat.Failure {
	f := &vstat.Failure{}
	b, err := url.Parse(c.Base)
	if err != nil {
		f.Add("HARNESS", "", "%v", err)
		return f
	}
	r, err := url.Parse(c.Ref)
	if err != nil {
		return f // not URL syntax: outside the domain
	}
	want := b.ResolveReference(r)
	want.Fragment, want.RawFragment = "", ""
	if r.IsAbs() || r.Host != "" {
		// absolute references are used as they are: RFC 3986 5.2.2 still removes dot segments,
		// and the reference value is canonicalised as C13 describes (scheme/host case, default port, duplicate slashes)
		if cr, err := spec.NewRef(want.String()); err == nil && cr.GetURL() != nil {
			u := *cr.GetURL()
			u.Fragment, u.RawFragment = "", ""
			want = &u
		}
	}
	got, oerr, panicked := c12Observe(c)
	if panicked != "" {
		f.Add("PANIC", c.Via, "%s", panicked)
		return f
	}
	selfRef := sameURL(want, b)
	switch {
	case selfRef && c.Via != "resolve":
		// the $ref designates the containing document: nothing else may be requested
		if len(got) != 0 {
			f.Add("WRONG-DOCUMENT", c.Ref, "$ref %q in document %s designates that document itself, yet the loader was asked for %q", c.Ref, c.Base, got)
		}
		if c.Via == "expand" && oerr == nil && r.Fragment == "/definitions/x" && c12Title != "X-in-base" {
			f.Add("WRONG-DOCUMENT", c.Ref, "$ref %q in document %s designates definitions.x of that document (title X-in-base); the expansion found title %q", c.Ref, c.Base, c12Title)
		}
	case len(got) != 1:
		f.Add("WRONG-DOCUMENT", c.Ref, "$ref %q in document %s: RFC 3986 gives %s, the loader was asked for %q (err=%v)", c.Ref, c.Base, want, got, oerr)
	default:
		gu, err := url.Parse(got[0])
		if err != nil || !sameURL(want, gu) {
			f.Add("WRONG-DOCUMENT", c.Ref, "$ref %q in document %s: RFC 3986 gives %s, the loader was asked for %q", c.Ref, c.Base, want, got[0])
		}
		if c.Via == "expand" && oerr == nil && r.Fragment == "/definitions/x" && c12Title != "Y@"+got[0] {
			f.Add("WRONG-DOCUMENT", c.Ref, "$ref %q in document %s designates definitions.x of %s, which is {\"$ref\":\"#/definitions/y\"} there: a fragment-only reference designates the containing document, whose y has title %q; the expansion found title %q", c.Ref, c.Base, got[0], "Y@"+got[0], c12Title)
		}
	}
	return f
}

// c12OtherScheme: URLs that differ from base by the scheme, the host or the port only.
func c12OtherScheme(base string) []string {
	u, err := url.Parse(base)
	if err != nil {
		return nil
	}
	var out []string
	for _, sc := range []string{"http", "https", "file"} {
		for _, h := range []string{u.Host, "h.example", "h.example:8443", "other.example", ""} {
			if (sc == "file") != (h == "") || (sc == u.Scheme && h == u.Host) {
				continue
			}
			v := *u
			v.Scheme, v.Host = sc, h
			out = append(out, v.String())
		}
	}
	return out
}

func c12Excluded(ref string) bool {
	path := ref
	if i := strings.IndexAny(path, "#?"); i >= 0 {
		path = path[:i]
	}
	if path == "" {
		return false
	}
	last := path[strings.LastIndex(path, "/")+1:]
	lp := strings.ToLower(path)
	return last == "." || last == ".." || strings.HasSuffix(path, "/") || strings.Contains(lp, "%2f") || strings.Contains(lp, "%2e") || strings.Contains(ref, "?")
}

func c12NonTrivial(ref string) bool {
	return strings.Contains(ref, "..") || strings.Contains(ref, "%") || strings.Contains(ref, "é")
}

func TestC12(t *testing.T) {
	r := rec("C12")
	shard, nshards := shardInfo()
	// exhaustive: bounded alphabet, up to 3 segments
	var rels []string
	for _, a := range c12Segs {
		rels = append(rels, a)
		for _, b := range c12Segs {
			rels = append(rels, a+"/"+b)
			for _, c := range c12Segs {
				rels = append(rels, a+"/"+b+"/"+c)
			}
		}
	}
	idx, n, excluded := 0, 0, 0
	for _, base := range c12Bases {
		for _, rel := range rels {
			for _, pre := range []string{"", "/", "./"} {
				for _, frag := range []string{"", "#/definitions/x"} {
					idx++
					if idx%nshards != shard {
						continue
					}
					ref := pre + rel + frag
					if c12Excluded(ref) {
						excluded++
						continue
					}
					for _, via := range []string{"resolve", "expand", "chain"} {
						c := c12Case{Base: base, Ref: ref, Via: via}
						n++
						if c12NonTrivial(ref) {
							r.NonTrivial([]byte(base+" "+ref+" "+via), nil)
						}
						if n%5000 == 1 {
							r.Sample(c)
						}
						verdict(t, "C12", "enumerated", c, oracleC12(c))
					}
				}
			}
		}
	}
	// absolute references with dot segments, over the same alphabet (up to 2 segments)
	for i, rel := range rels {
		if strings.Count(rel, "/") > 1 || i%nshards != shard {
			continue
		}
		for _, pre := range []string{"http://o.example/", "https://o.example:8443/d/", "file:///abs/"} {
			ref := pre + rel + "#/definitions/x"
			if c12Excluded(ref) {
				continue
			}
			for _, via := range []string{"resolve", "expand", "chain"} {
				c := c12Case{Base: c12Bases[i%len(c12Bases)], Ref: ref, Via: via}
				n++
				r.NonTrivial([]byte(c.Base+" "+ref+" "+via), nil)
				verdict(t, "C12", "enumerated-absolute", c, oracleC12(c))
			}
		}
	}
	// the same host and path under the other scheme (and the same path on another host): another document
	for _, base := range append(append([]string{}, c12Bases...), "https://h.example/d1/r.json", "http://h.example:8443/r.json") {
		for _, other := range c12OtherScheme(base) {
			for _, via := range []string{"resolve", "expand", "chain"} {
				c := c12Case{Base: base, Ref: other + "#/definitions/x", Via: via}
				n++
				r.NonTrivial([]byte(c.Base+" "+c.Ref+" "+via), nil)
				verdict(t, "C12", "enumerated-other-scheme", c, oracleC12(c))
			}
		}
	}
	// fixed special cases: empty, fragment-only, absolute
	for _, c := range []c12Case{{"file:///d1/r.json", "", "resolve"}, {"file:///d1/r.json", "#", "resolve"}, {"file:///d1/r.json", "#/definitions/x", "resolve"}, {"file:///d1/r.json", "#/definitions/x", "expand"},
		{"http://h.example/d1/r.json", "r.json#/definitions/x", "expand"}, {"file:///d1/r.json", "http://other.example/x/y.json#/definitions/x", "expand"},
		{"file:///d1/r.json", "HTTP://Other.Example:80/x//y.json#/definitions/x", "resolve"}, {"http://h.example/d/r.json", "file:///x/y.json", "expand"}} {
		n++
		verdict(t, "C12", "special", c, oracleC12(c))
	}
	r.EvalN(n)
	r.Count("enumerated pairs", n)
	for i := 0; i < excluded; i++ {
		r.Excluded("reference designating a directory (last segment . or .., trailing /)")
	}
	r.SetExhaustive(true)
	rapid.Check(t, func(t *rapid.T) {
		base := []string{"file:///r.json", "file:///d1/r.json", "file:///d1/d2/d3/r.json", "http://h.example/d1/r.json", "https://h.example:8443/a/b/r.json", "http://h.example/r.json", "file:///é/ü/r.json", "http://h.example/d%201/r.json", "file:///d1/models/pet", "file:///d1/d.v2/api", "https://h.example/d1/r.json"}[gen.Uniform(t, "base", 11)]
		var ref string
		if others := c12OtherScheme(base); len(others) > 0 && gen.Pct(t, "other scheme", 8) {
			ref = others[gen.Uniform(t, "other", len(others))]
		} else if gen.Pct(t, "absolute", 15) {
			ref = []string{"http://other.example/x/y.json", "HTTPS://Other.Example:443/x//y.json", "file:///abs/z.json", "http://h.example:80/d1/r.json", "File:///x/../y.json",
				"http://other.example/a/../y.json", "https://other.example/./x/./y.json", "http://other.example/a/b/../../c/y.json", "HTTP://other.example/%41/../y.json"}[gen.Uniform(t, "abs", 9)]
		} else {
			nseg := 1 + gen.Uniform(t, "nseg", 8)
			parts := make([]string, nseg)
			for i := range parts {
				parts[i] = append(c12Segs, "~x", "a+b", "a:b", "A", "a=b&c", "a;b", "(x)", "a@b", "%7Euser", "日本")[gen.Uniform(t, "seg", len(c12Segs)+10)]
			}
			ref = []string{"", "/", "./", "../", "../../"}[gen.Uniform(t, "prefix", 5)] + strings.Join(parts, "/")
			if strings.HasPrefix(parts[0], "a:b") && !strings.HasPrefix(ref, ".") && !strings.HasPrefix(ref, "/") {
				ref = "./" + ref // a first segment with a colon would be read as a scheme
			}
		}
		ref += []string{"", "", "#/definitions/x", "#", "#/a~1b/c%20d"}[gen.Uniform(t, "frag", 5)]
		if c12Excluded(ref) {
			r.Excluded("reference designating a directory (last segment . or .., trailing /)")
			t.Skip("directory reference")
		}
		c := c12Case{Base: base, Ref: ref, Via: []string{"resolve", "expand", "chain"}[gen.Uniform(t, "via", 3)]}
		r.Eval()
		r.Label("via=" + c.Via)
		r.LabelIf(strings.Contains(ref, ".."), "contains ..")
		r.LabelIf(strings.Contains(ref, "%"), "percent escape")
		r.LabelIf(strings.Contains(ref, "://"), "absolute")
		if c12NonTrivial(ref) {
			r.NonTrivial([]byte(base+" "+ref+" "+c.Via), c)
		}
		verdict(t, "C12", "random", c, oracleC12(c))
	})
}

func TestReplayC12(t *testing.T) {
	runReplays(t, "C12", func(variant string, raw json.RawMessage) *vstat.Failure {
		var c c12Case
		if err := json.Unmarshal(raw, &c); err != nil {
			return &vstat.Failure{Atoms: []vstat.Atom{{Kind: "HARNESS", Detail: err.Error()}}}
		}
		return oracleC12(c)
	})
}

// FuzzC12: byte-level campaign over the reference text (thorough tier).
func FuzzC12(f *testing.F) {
	for _, s := range []string{"a/b.json#/definitions/x", "../x/./y.json", "/abs/%41.json", "http://o.example/a/../y.json#/definitions/x", "é/c%20d/..//z.json", "#/definitions/x", ""} {
		f.Add(s, uint8(1))
	}
	f.Fuzz(func(t *testing.T, ref string, which uint8) {
		if !utf8.ValidString(ref) || strings.ContainsAny(ref, "\\ \t\r\n") || c12Excluded(ref) || len(ref) > 200 {
			return
		}
		u, err := url.Parse(ref)
		if err != nil || u.User != nil || u.Opaque != "" || (u.Scheme != "" && u.Scheme != "http" && u.Scheme != "https" && u.Scheme != "file") || (u.Scheme != "" && u.Host == "" && u.Scheme != "file") {
			return
		}
		if strings.Contains(u.Path, "//") || strings.HasPrefix(ref, "//") || !c13Host.MatchString(u.Host) || strings.ContainsAny(u.Host, "[]%") {
			return // duplicate slashes are collapsed by the reference canonicaliser (C13), network-path references are not in the statement
		}
		c := c12Case{Base: c12Bases[int(which)%len(c12Bases)], Ref: ref, Via: []string{"resolve", "expand", "chain"}[int(which/8)%3]}
		rec("C12").Eval()
		verdict(t, "C12", "fuzz", c, oracleC12(c))
	})
}
