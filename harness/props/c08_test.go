package props

// C08 — Expansion never fails silently: bad $refs become errors or stay in place.

import (
	"encoding/json"
	"strings"
	"testing"

	"github.com/go-openapi/spec"
	"pgregory.net/rapid"

	"verif/gen"
	"verif/model"
	"verif/vstat"
)

type c08Case struct {
	Graph    gen.GraphCase `json:"graph"`
	Refused  []string      `json:"refused"`
	Continue bool          `json:"continue_on_error"`
	Repeat   int           `json:"repeat,omitempty"` // run the oracle up to this many times (outcomes that depend on map iteration order)
}

func (c c08Case) graph() *model.Graph {
	g := c.Graph.Graph()
	for _, u := range c.Refused {
		g.Refused[u] = true
	}
	return g
}

// continueWalk compares input and output of a continue-on-error expansion below
// one element: dangling schema $refs must be in place verbatim, everything
// reached through healthy $refs must carry the same content.
func continueWalk(f *vstat.Failure, gin, gout *model.Graph, root string, el model.Elem) {
	var walk func(pin, pout model.Pos, k model.Kind, stack map[model.Pos]bool, depth int)
	walk = func(pin, pout model.Pos, k model.Kind, stack map[model.Pos]bool, depth int) {
		if depth > 80 || len(f.Atoms) > 0 {
			return
		}
		nin, err := gin.Get(pin)
		if err != nil {
			return
		}
		nout, err := gout.Get(pout)
		if err != nil {
			f.Add("LOST", pout.Ptr, "output has nothing at %s (input position %s)", pout.Ptr, pin)
			return
		}
		if r, ok := model.RefOf(nin); ok {
			tp, healthy := gin.Hop(pin, r)
			if !healthy {
				if k != model.KSchema {
					return // the statement pins schema $refs only
				}
				ro, ok := model.RefOf(nout)
				if !ok {
					known := ""
					if k6Shape(gin, root, pin, r, tp) {
						known = "K6"
					}
					f.AddKnown(known, "DANGLING-REF-NOT-KEPT", pout.Ptr, "unresolvable schema $ref %q (input %s) is not left in place at %s: output holds %s", r, pin, pout.Ptr, model.JS(nout))
					return
				}
				cr, err := spec.NewRef(r)
				if err == nil && ro != cr.String() {
					known := ""
					if k6Shape(gin, root, pin, r, tp) {
						known = "K6" // followed in the rewritten root and, landing on a cycle there, replaced by that cycle's $ref
					}
					f.AddKnown(known, "DANGLING-REF-REWRITTEN", pout.Ptr, "unresolvable schema $ref %q (input %s) was rewritten to %q at %s", r, pin, ro, pout.Ptr)
				}
				return
			}
			if _, outIsRef := model.RefOf(nout); outIsRef {
				return // kept as a cycle cut-point (C03's business)
			}
			if stack[tp] {
				return
			}
			stack[tp] = true
			walk(tp, pout, k, stack, depth+1)
			delete(stack, tp)
			return
		}
		if _, outIsRef := model.RefOf(nout); outIsRef {
			return
		}
		la, lb := model.LocalContent(k, nin), model.LocalContent(k, nout)
		if !model.JSONEq(la, lb) {
			f.Add("CONTENT", pout.Ptr, "content reached through resolvable $refs differs: input %s = %s ; output %s = %s", pin, model.JS(la), pout.Ptr, model.JS(lb))
			return
		}
		for _, ch := range model.Children(k, nin) {
			// a child that is an unresolvable parameter/response/path-item $ref is exempt, and so is what the implementation makes of it
			walk(pin.Child(ch.Toks...), pout.Child(ch.Toks...), ch.K, stack, depth+1)
		}
	}
	walk(el.P, el.P, el.K, map[model.Pos]bool{}, 0)
}

// dependsOnNonSchemaDangling: does the unfolding below el meet an unresolvable
// parameter/response/path-item $ref? (such elements are exempt from comparison)
func dependsOnNonSchemaDangling(g *model.Graph, el model.Elem) bool {
	found := false
	budget := 100000
	stack := map[model.Pos]bool{}
	var walk func(p model.Pos, k model.Kind)
	walk = func(p model.Pos, k model.Kind) {
		budget--
		if found || budget < 0 {
			return
		}
		n, err := g.Get(p)
		if err != nil {
			return
		}
		if r, ok := model.RefOf(n); ok {
			tp, healthy := g.Hop(p, r)
			if !healthy {
				if k != model.KSchema {
					found = true
				}
				return
			}
			if stack[tp] {
				return
			}
			stack[tp] = true
			walk(tp, k)
			delete(stack, tp)
			return
		}
		for _, ch := range model.Children(k, n) {
			walk(p.Child(ch.Toks...), ch.K)
		}
	}
	walk(el.P, el.K)
	return found
}

type c08Info struct {
	dangling bool
	healthy  int
}

func oracleC08(c c08Case) (f *vstat.Failure, info c08Info) {
	for i := 0; i < 1 || i < c.Repeat; i++ {
		f, info = oracleC08once(c)
		if !f.Empty() {
			return
		}
	}
	return
}

// throughHolder: does the pointer of tp pass through (or end below) a `$ref` holder of its document?
// Such a reference designates nothing in the document as written; the expander, which resolves against
// the root it is rewriting in place, may or may not find the holder already replaced by its target (K6).
func throughHolder(g *model.Graph, tp model.Pos) bool {
	cur := model.Pos{Doc: tp.Doc}
	for _, tok := range tp.Tokens() {
		n, err := g.Get(cur)
		if err != nil {
			return false
		}
		if _, isRef := model.RefOf(n); isRef {
			return true
		}
		cur = cur.Child(tok)
	}
	return false
}

// allDanglingAreK6: every unresolvable $ref reachable from the root's elements has the K6 shape.
func allDanglingAreK6(g *model.Graph, root string) bool {
	some, all := false, true
	g.Walk(rootElems(g, root), func(p model.Pos, k model.Kind, n any, isRef bool, ref string) {
		if !isRef {
			return
		}
		if tp, healthy := g.Hop(p, ref); !healthy {
			some = true
			if tp.Doc != root || !throughHolder(g, tp) {
				all = false
			}
		}
	})
	return some && all
}

// k6Shape: the structural matcher of known finding K6 for one unresolvable $ref r found at pin (target tp).
func k6Shape(gin *model.Graph, root string, pin model.Pos, r string, tp model.Pos) bool {
	// shape 1: a pointer into the root that passes through a $ref holder
	if tp.Doc == root && throughHolder(gin, tp) {
		return true
	}
	// shape 2: fragment-only, in an imported document, and the root has an object at that pointer
	if pin.Doc != root && strings.HasPrefix(r, "#") {
		if n, err := gin.Get(model.Pos{Doc: root, Ptr: tp.Ptr}); err == nil {
			if _, isObj := n.(map[string]any); isObj {
				return true
			}
		}
	}
	return false
}

func oracleC08once(c c08Case) (*vstat.Failure, c08Info) {
	f := &vstat.Failure{}
	gin := c.graph()
	refused := map[string]bool{}
	for _, u := range c.Refused {
		refused[u] = true
	}
	elems := rootElems(gin, c.Graph.Root)
	var info c08Info
	var firstDangling model.RefHolder
	danglingBelow := map[model.Pos]bool{}
	for _, el := range elems {
		if h, ok := gin.ReachDangling(el.P, el.K); ok {
			if !info.dangling {
				firstDangling = h
			}
			info.dangling = true
			danglingBelow[el.P] = true
		} else {
			info.healthy++
		}
	}
	run := runExpandSpec(c.Graph, refused, spec.ExpandOptions{ContinueOnError: c.Continue})
	if run.Panic != "" {
		f.Add("PANIC", "ExpandSpec", "%s", run.Panic)
		return f, info
	}
	if !c.Continue {
		switch {
		case info.dangling && run.Err == nil:
			known := ""
			if allDanglingAreK6(gin, c.Graph.Root) {
				known = "K6"
			}
			f.AddKnown(known, "SILENT-FAILURE", firstDangling.P.String(), "expansion returned no error although it has to follow the unresolvable $ref %q at %s", firstDangling.Ref, firstDangling.P)
		case !info.dangling && run.Err != nil:
			f.Add("SPURIOUS-ERROR", "ExpandSpec", "every $ref that has to be followed resolves, yet expansion failed: %v", run.Err)
		}
		return f, info
	}
	if run.Err != nil {
		f.Add("ERROR", "ExpandSpec", "ContinueOnError is set, yet expansion returned an error: %v", run.Err)
		return f, info
	}
	gout := gin.With(c.Graph.Root, run.Out)
	memo := model.BisimMemo{}
	for _, el := range elems {
		if !gin.WellFounded(el.P) && !danglingBelow[el.P] {
			continue
		}
		if !danglingBelow[el.P] {
			// expanded exactly as otherwise: same meaning as the input (C02 oracle)
			if err := model.BisimMemoized(gin, gout, el.P, el.P, el.K, memo); err != nil {
				f.Add("MEANING", el.P.Ptr, "%s %s depends on no unresolvable $ref but does not denote the same tree after a continue-on-error expansion: %v", el.K, el.P.Ptr, err)
				return f, info
			}
			continue
		}
		if dependsOnNonSchemaDangling(gin, el) {
			continue
		}
		continueWalk(f, gin, gout, c.Graph.Root, el)
		if len(f.Atoms) > 0 {
			return f, info
		}
	}
	return f, info
}

func TestC08(t *testing.T) {
	r := rec("C08")
	o := gen.DefaultGraphOpts()
	o.DagPct = 30
	rapid.Check(t, func(t *rapid.T) {
		g := gen.Graph(t, o)
		g, refused := gen.Break(t, g, 70, 8)
		c := c08Case{Graph: g, Refused: refused, Continue: rapid.Bool().Draw(t, "continue")}
		vstat.InFlight("C08", "expandspec", c)
		f, info := oracleC08(c)
		vstat.ClearInFlight("C08")
		r.Eval()
		r.LabelIf(c.Continue, "ContinueOnError")
		r.LabelIf(info.dangling, "dangling $ref reachable")
		r.LabelIf(!info.dangling, "no reachable fault")
		r.LabelIf(len(refused) > 0, "loader refuses a document")
		if info.dangling && info.healthy > 0 {
			r.NonTrivial(mustJSON(c), c)
		}
		verdict(t, "C08", "expandspec", c, f)
	})
}

func TestReplayC08(t *testing.T) {
	runReplays(t, "C08", func(variant string, raw json.RawMessage) *vstat.Failure {
		var c c08Case
		if err := json.Unmarshal(raw, &c); err != nil {
			return &vstat.Failure{Atoms: []vstat.Atom{{Kind: "HARNESS", Detail: err.Error()}}}
		}
		f, _ := oracleC08(c)
		return f
	})
}
