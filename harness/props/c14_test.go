package props

// C14 — Gob transport preserves the document.

import (
	"bytes"
	"encoding/gob"
	"encoding/json"
	"strings"
	"testing"

	"pgregory.net/rapid"

	"verif/gen"
	"verif/model"
	"verif/vstat"
)

var gobKinds = []string{"swagger", "operation", "parameter", "schema", "response", "swagger", "schema"}

var k3Members = map[string]bool{"maximum": true, "minimum": true, "multipleOf": true, "maxLength": true, "minLength": true, "maxItems": true, "minItems": true, "maxProperties": true, "minProperties": true}

func isZeroNumber(v any) bool { f, ok := v.(float64); return ok && f == 0 }

func isEmptyArray(v any) bool { a, ok := v.([]any); return ok && len(a) == 0 }

// underPayload: is path at or below one of the free-form payload roots?
func underPayload(path string, roots []string) bool {
	for _, r := range roots {
		if path == r || strings.HasPrefix(path, r+"/") {
			return true
		}
	}
	return false
}

func gobRoundTrip(f *vstat.Failure, kind string, doc []byte) {
	guard(f, "gob", func() {
		tgt := newTarget(kind)
		if err := json.Unmarshal(doc, tgt); err != nil {
			f.Add("HARNESS", "", "document does not decode: %v", err)
			return
		}
		before, err := json.Marshal(tgt)
		if err != nil {
			f.Add("HARNESS", "", "document does not encode: %v", err)
			return
		}
		var buf bytes.Buffer
		if err := gob.NewEncoder(&buf).Encode(tgt); err != nil {
			f.Add("GOB-ENCODE-ERROR", "", "%v", err)
			return
		}
		back := newTarget(kind)
		if err := gob.NewDecoder(&buf).Decode(back); err != nil {
			f.Add("GOB-DECODE-ERROR", "", "%v", err)
			return
		}
		after, err := json.Marshal(back)
		if err != nil {
			f.Add("ENCODE-ERROR", "", "value decoded from gob does not encode: %v", err)
			return
		}
		var a, b any
		_ = json.Unmarshal(before, &a)
		_ = json.Unmarshal(after, &b)
		roots := gen.PayloadRoots(kind, a)
		for _, at := range model.Diff(a, b) {
			known := ""
			switch {
			case at.Kind == "LOST" && k3Members[model.LastToken(at.Path)] && isZeroNumber(at.A) && !underPayload(at.Path, roots):
				known = "K3"
			case at.Kind == "CHANGED" && isEmptyArray(at.A) && at.B == nil && underPayload(at.Path, roots):
				known = "K4"
			case at.Kind == "CHANGED" && isEmptyArray(at.A) && at.B == nil && model.LastToken(at.Path) == "items" && !underPayload(at.Path, roots):
				known = "K7" // the empty tuple `items: []` of a schema (outside the normal form)
			}
			f.AddKnown(known, at.Kind, at.Path, "%s", at.String())
		}
	})
}

func TestC14(t *testing.T) {
	r := rec("C14")
	rapid.Check(t, func(t *rapid.T) {
		kind := gobKinds[gen.Uniform(t, "kind", len(gobKinds))]
		o := gen.VocabOpts{Hostile: true, Refs: true, EmptySecurity: true, RootRefs: true}
		if rapid.Bool().Draw(t, "steer-around-K3-K4") {
			// exclude the known losses by construction so that other losses are not masked
			o.NoZeroValid, o.NoEmptyInFree = true, true
			r.Excluded("K3/K4 shapes (zero validations, empty arrays in payloads) not generated")
		}
		if gen.Pct(t, "with empty typed lists", 30) {
			// beyond the normal form: consumes/produces/tags/required/parameters/... written as []
			o.EmptyListPct = 10
		}
		v := gen.NewV(t, o)
		c := codecCase{Kind: kind, Doc: string(mustJSON(v.Instance(kind)))}
		f := &vstat.Failure{}
		gobRoundTrip(f, c.Kind, []byte(c.Doc))
		r.Eval()
		r.LabelIf(v.EmptyList, "empty typed list")
		vocabLabels(r, v, kind)
		emptySec := strings.Contains(c.Doc, `"security":[]`) || strings.Contains(c.Doc, `{}`)
		r.LabelIf(strings.Contains(c.Doc, `"security":[]`), "empty security")
		if v.ZeroValid || v.FreeNull || emptySec || strings.Contains(c.Doc, "[]") {
			r.NonTrivial([]byte(c.Kind+c.Doc), c)
		}
		verdict(t, "C14", "gob", c, f)
	})
}

func TestReplayC14(t *testing.T) {
	runReplays(t, "C14", func(variant string, raw json.RawMessage) *vstat.Failure {
		var c codecCase
		f := &vstat.Failure{}
		if err := json.Unmarshal(raw, &c); err != nil {
			f.Add("HARNESS", "", "%v", err)
			return f
		}
		gobRoundTrip(f, c.Kind, []byte(c.Doc))
		return f
	})
}
