package props

// C02 — Expansion preserves the meaning of every element (bisimilar reference graphs).

import (
	"encoding/json"
	"testing"

	"github.com/go-openapi/spec"
	"pgregory.net/rapid"

	"verif/gen"
	"verif/model"
	"verif/vstat"
)

type c02Case struct {
	Graph gen.GraphCase `json:"graph"`
	Abs   bool          `json:"absolute_circular_ref"`
}

// oracleMeaning: expansion must succeed and every well-founded element of the
// root must denote the same tree before and after.
func oracleMeaning(f *vstat.Failure, c gen.GraphCase, opts spec.ExpandOptions, reps int) {
	gin := c.Graph()
	for rep := 0; rep < reps; rep++ {
		run := runExpandSpec(c, nil, opts)
		if run.Panic != "" {
			f.Add("PANIC", "ExpandSpec", "%s", run.Panic)
			return
		}
		if run.Err != nil {
			f.Add("ERROR", "ExpandSpec", "expansion of a graph whose $refs all resolve failed: %v", run.Err)
			return
		}
		gout := gin.With(c.Root, run.Out)
		memo := model.BisimMemo{}
		for _, el := range rootElems(gin, c.Root) {
			if !gin.WellFounded(el.P) {
				continue
			}
			if err := model.BisimMemoized(gin, gout, el.P, el.P, el.K, memo); err != nil {
				f.Add("MEANING", el.P.Ptr, "%s %s does not denote the same tree after expansion: %v", el.K, el.P.Ptr, err)
				return
			}
		}
	}
}

func oracleC02(c c02Case) *vstat.Failure {
	f := &vstat.Failure{}
	oracleMeaning(f, c.Graph, spec.ExpandOptions{AbsoluteCircularRef: c.Abs}, 2)
	return f
}

func TestC02(t *testing.T) {
	r := rec("C02")
	o := gen.DefaultGraphOpts()
	rapid.Check(t, func(t *rapid.T) {
		c := c02Case{Graph: gen.Graph(t, o), Abs: rapid.Bool().Draw(t, "abs")}
		cl := gen.Classify(c.Graph)
		r.Eval()
		for _, l := range cl.Labels() {
			r.Label(l)
		}
		r.LabelIf(c.Abs, "AbsoluteCircularRef")
		if cl.NonTrivial() {
			r.NonTrivial(c.Graph.Canon(), c)
		}
		vstat.InFlight("C02", "expandspec", c)
		fC02 := oracleC02(c)
		vstat.ClearInFlight("C02")
		verdict(t, "C02", "expandspec", c, fC02)
	})
}

func TestReplayC02(t *testing.T) {
	runReplays(t, "C02", func(variant string, raw json.RawMessage) *vstat.Failure {
		var c c02Case
		if err := json.Unmarshal(raw, &c); err != nil {
			return &vstat.Failure{Atoms: []vstat.Atom{{Kind: "HARNESS", Detail: err.Error()}}}
		}
		return oracleC02(c)
	})
}

var _ = model.KSchema
