package props

// C11 — The root location may be spelled in any equivalent way.

import (
	"bytes"
	"encoding/json"
	"fmt"
	"net/url"
	"os"
	"path"
	"sort"
	"strings"
	"testing"

	"github.com/go-openapi/spec"
	"pgregory.net/rapid"

	"verif/gen"
	"verif/model"
	"verif/vstat"
)

type c11Case struct {
	Graph     gen.GraphCase `json:"graph"`     // documents already relocated: the root's canonical URL is Graph.Root
	Spellings []string      `json:"spellings"` // equivalent spellings of the root location (the first one is the canonical URL)
	Cwd       string        `json:"cwd"`       // working directory the relative spellings were made for ("" = none used)
	Elems     []c11Elem     `json:"elems,omitempty"`
}

// c11Elem: one element of the root handed, under every spelling of the root location, to one of the entry
// points that take a base location instead of a root document.
type c11Elem struct {
	Entry string `json:"entry"` // ExpandSchemaWithBasePath, ExpandParameter, ExpandResponse, Resolve{Ref,Parameter,Response,PathItem}WithBase
	Ptr   string `json:"ptr"`   // pointer of the element in the root document
}

var c11Entries = map[model.Kind][]string{
	model.KSchema:   {"ExpandSchemaWithBasePath", "ResolveRefWithBase"},
	model.KParam:    {"ExpandParameter", "ResolveParameterWithBase"},
	model.KResponse: {"ExpandResponse", "ResolveResponseWithBase"},
	model.KPathItem: {"ResolvePathItemWithBase"},
}

// c11RunElem runs one base-location entry point with the root location spelled as given.
func c11RunElem(c c11Case, e c11Elem, spelling string) (r c11Run) {
	l := newLoader(c.Graph.Docs, nil)
	old := spec.PathLoader
	spec.PathLoader = l.load // (ExpandParameter and ExpandResponse take no options: the package-level loader)
	defer func() { spec.PathLoader = old }()
	g := c.Graph.Graph()
	node, err := g.Get(model.Pos{Doc: c.Graph.Root, Ptr: e.Ptr})
	if err != nil {
		r.panic = "harness: " + err.Error()
		return
	}
	nb := mustJSON(node)
	opts := &spec.ExpandOptions{RelativeBase: spelling, PathLoader: l.load}
	var out any
	func() {
		defer func() {
			if rc := recover(); rc != nil {
				r.panic = fmt.Sprint(rc)
			}
		}()
		var err error
		switch e.Entry {
		case "ExpandSchemaWithBasePath":
			var v spec.Schema
			if json.Unmarshal(nb, &v) != nil {
				r.panic = "harness: element does not decode"
				return
			}
			err = spec.ExpandSchemaWithBasePath(&v, nil, opts)
			out = &v
		case "ExpandParameter":
			var v spec.Parameter
			if json.Unmarshal(nb, &v) != nil {
				r.panic = "harness: element does not decode"
				return
			}
			err = spec.ExpandParameter(&v, spelling)
			out = &v
		case "ExpandResponse":
			var v spec.Response
			if json.Unmarshal(nb, &v) != nil {
				r.panic = "harness: element does not decode"
				return
			}
			err = spec.ExpandResponse(&v, spelling)
			out = &v
		default:
			ref, rerr := spec.NewRef(gen.FragmentOf(e.Ptr))
			if rerr != nil {
				r.panic = "harness: " + rerr.Error()
				return
			}
			switch e.Entry {
			case "ResolveRefWithBase":
				out, err = spec.ResolveRefWithBase(nil, &ref, opts)
			case "ResolveParameterWithBase":
				out, err = spec.ResolveParameterWithBase(nil, ref, opts)
			case "ResolveResponseWithBase":
				out, err = spec.ResolveResponseWithBase(nil, ref, opts)
			case "ResolvePathItemWithBase":
				out, err = spec.ResolvePathItemWithBase(nil, ref, opts)
			default:
				r.panic = "harness: unknown entry " + e.Entry
				return
			}
		}
		if err != nil {
			r.err = err.Error()
		}
	}()
	if opts.RelativeBase != spelling {
		r.panic = fmt.Sprintf("the caller's RelativeBase was changed from %q to %q", spelling, opts.RelativeBase)
	}
	r.loads = l.requestSet()
	if r.panic == "" && r.err == "" {
		r.out, _ = json.Marshal(out)
	}
	return
}

// checkC11Elems: the base-location entry points answer alike under every spelling. Results are compared
// byte-wise when the element's reference graph is acyclic or the entry point is a resolution (both are
// deterministic); for a cyclic expansion, where the cut-points depend on map iteration, success and the set
// of documents read are compared.
func checkC11Elems(f *vstat.Failure, c c11Case, gin *model.Graph, texts map[string]map[string]bool) {
	for _, e := range c.Elems {
		kind := model.KSchema
		for k, es := range c11Entries {
			for _, n := range es {
				if n == e.Entry {
					kind = k
				}
			}
		}
		exact := strings.HasPrefix(e.Entry, "Resolve") || gin.Acyclic([]model.Elem{{P: model.Pos{Doc: c.Graph.Root, Ptr: e.Ptr}, K: kind}})
		var ref c11Run
		for i, sp := range c.Spellings {
			run := c11RunElem(c, e, sp)
			where := fmt.Sprintf("%s of %s with base location %q (canonical %s)", e.Entry, e.Ptr, sp, c.Graph.Root)
			if run.panic != "" {
				f.Add("PANIC", where, "%s", run.panic)
				return
			}
			for _, u := range run.loads {
				if p := loaderURLProblem(u); p != "" {
					f.Add("NOT-CANONICAL", where, "the loader was asked for %q, which %s", u, p)
				}
				if texts[urlKey(u)] == nil {
					texts[urlKey(u)] = map[string]bool{}
				}
				texts[urlKey(u)][u] = true
			}
			if i == 0 {
				ref = run
				if run.err != "" {
					f.Add("ERROR", where, "failed from the canonical location on a graph whose $refs all resolve: %s", run.err)
					break
				}
				continue
			}
			if (run.err == "") != (ref.err == "") {
				f.Add("SPELLING-CHANGES-RESULT", where, "error with this spelling: %q; with the canonical one: %q", run.err, ref.err)
				continue
			}
			if got, want := externalOnly(run.loads, c.Graph.Root), externalOnly(ref.loads, c.Graph.Root); strings.Join(got, " ") != strings.Join(want, " ") {
				f.Add("SPELLING-CHANGES-LOADS", where, "documents requested with this spelling: %q; with the canonical one: %q", got, want)
			}
			if exact && !bytes.Equal(run.out, ref.out) {
				f.Add("SPELLING-CHANGES-RESULT", where, "result %s with this spelling, %s with the canonical one", clip(run.out), clip(ref.out))
			}
		}
		if len(f.Atoms) > 3 {
			return
		}
	}
}

// relocate moves the documents below file:///w/ to another prefix (another scheme/host or below the working directory).
func relocate(c gen.GraphCase, prefix string) gen.GraphCase {
	out := gen.GraphCase{Docs: map[string]string{}}
	repl := func(s string) string { return strings.ReplaceAll(s, "file:///w/", prefix) }
	for u, d := range c.Docs {
		out.Docs[repl(u)] = repl(d)
	}
	out.Root = repl(c.Root)
	return out
}

// fileCanonical: a loader URL must have a scheme, an absolute cleaned path, no fragment, and no query for file URLs.
func loaderURLProblem(s string) string {
	u, err := url.Parse(s)
	switch {
	case err != nil:
		return "does not parse"
	case u.Scheme == "":
		return "has no scheme"
	case u.Scheme != strings.ToLower(u.Scheme):
		return "scheme is not lower case"
	case u.Fragment != "" || strings.Contains(s, "#"):
		return "carries a fragment"
	case !path.IsAbs(u.Path) || path.Clean(u.Path) != u.Path:
		return "path is not absolute and clean"
	case u.Scheme == "file" && (u.RawQuery != "" || strings.Contains(s, "?")):
		return "file URL carries a query"
	}
	return ""
}

// externalOnly: the documents (identified modulo percent-encoding normalisation) requested besides the root.
func externalOnly(loads []string, root string) []string {
	set := map[string]bool{}
	for _, u := range loads {
		if urlKey(u) != urlKey(root) {
			set[urlKey(u)] = true
		}
	}
	out := make([]string, 0, len(set))
	for k := range set {
		out = append(out, k)
	}
	sort.Strings(out)
	return out
}

type c11Run struct {
	err    string
	out    []byte
	outAny any
	loads  []string
	panic  string
}

func c11Expand(c c11Case, spelling string) c11Run {
	var r c11Run
	l := newLoader(c.Graph.Docs, nil)
	var sw spec.Swagger
	if err := json.Unmarshal([]byte(c.Graph.Docs[c.Graph.Root]), &sw); err != nil {
		r.panic = "harness: " + err.Error()
		return r
	}
	opts := &spec.ExpandOptions{RelativeBase: spelling, PathLoader: l.load}
	func() {
		defer func() {
			if rc := recover(); rc != nil {
				r.panic = fmt.Sprint(rc)
			}
		}()
		if err := spec.ExpandSpec(&sw, opts); err != nil {
			r.err = err.Error()
		}
	}()
	if opts.RelativeBase != spelling {
		r.panic = fmt.Sprintf("the caller's RelativeBase was changed from %q to %q", spelling, opts.RelativeBase)
	}
	r.loads = l.requestSet()
	r.out, _ = json.Marshal(&sw)
	_ = json.Unmarshal(r.out, &r.outAny)
	return r
}

func oracleC11(c c11Case) (*vstat.Failure, bool) {
	f := &vstat.Failure{}
	if c.Cwd != "" {
		if wd, _ := os.Getwd(); wd != c.Cwd {
			// a replay from another directory: the relative spellings would designate other documents
			if err := os.Chdir(c.Cwd); err != nil {
				if err := os.MkdirAll(c.Cwd, 0o755); err != nil || os.Chdir(c.Cwd) != nil {
					f.Add("HARNESS", "", "cannot enter the working directory %s the case was made for", c.Cwd)
					return f, false
				}
			}
			defer os.Chdir(wd)
		}
	}
	gin := c.Graph.Graph()
	elems := rootElems(gin, c.Graph.Root)
	acyclic := gin.Acyclic(elems)
	var ref c11Run
	external := false
	texts := map[string]map[string]bool{} // document -> the URL texts it was requested under, over all spellings
	defer func() {
		for doc, ts := range texts {
			if len(ts) > 1 {
				var list []string
				for t := range ts {
					list = append(list, t)
				}
				sort.Strings(list)
				f.Add("NOT-ONE-CANONICAL-URL", doc, "the same document is requested under %d different URL texts depending on how the root location is spelled: %q", len(list), list)
			}
		}
	}()
	for i, sp := range c.Spellings {
		run := c11Expand(c, sp)
		where := fmt.Sprintf("RelativeBase=%q (canonical %s)", sp, c.Graph.Root)
		if run.panic != "" {
			f.Add("PANIC", where, "%s", run.panic)
			return f, external
		}
		for _, u := range run.loads {
			if p := loaderURLProblem(u); p != "" {
				f.Add("NOT-CANONICAL", where, "the loader was asked for %q, which %s", u, p)
			}
			if urlKey(u) != urlKey(c.Graph.Root) {
				external = true
			}
			if texts[urlKey(u)] == nil {
				texts[urlKey(u)] = map[string]bool{}
			}
			texts[urlKey(u)][u] = true
		}
		if i == 0 {
			ref = run
			if run.err != "" {
				f.Add("ERROR", where, "expansion from the canonical location failed on a graph whose $refs all resolve: %s", run.err)
				return f, external
			}
			gout := gin.With(c.Graph.Root, run.outAny)
			memo := model.BisimMemo{}
			for _, el := range elems {
				if gin.WellFounded(el.P) {
					if err := model.BisimMemoized(gin, gout, el.P, el.P, el.K, memo); err != nil {
						f.Add("MEANING", where, "%v", err)
						return f, external
					}
				}
			}
			// the documents requested are exactly those the model says an expansion has to read
			var want []string
			for u := range gin.ReachableDocs(elems) {
				if u != c.Graph.Root {
					want = append(want, urlKey(u))
				}
			}
			sort.Strings(want)
			if got := externalOnly(run.loads, c.Graph.Root); strings.Join(got, " ") != strings.Join(want, " ") {
				f.Add("LOADS", where, "documents requested: %q; documents reachable from the root according to the model: %q", got, want)
			}
			continue
		}
		if (run.err == "") != (ref.err == "") {
			f.Add("SPELLING-CHANGES-RESULT", where, "error with this spelling: %q; with the canonical one: %q", run.err, ref.err)
			continue
		}
		// (whether the root document itself is fetched through the loader depends on the order in which
		// circular $refs naming it are met, i.e. on map iteration: compare the other documents)
		if ext, want := externalOnly(run.loads, c.Graph.Root), externalOnly(ref.loads, c.Graph.Root); strings.Join(ext, " ") != strings.Join(want, " ") {
			f.Add("SPELLING-CHANGES-LOADS", where, "documents requested with this spelling: %q; with the canonical one: %q", ext, want)
		}
		if acyclic {
			if !bytes.Equal(run.out, ref.out) {
				f.Add("SPELLING-CHANGES-RESULT", where, "acyclic graph expands to %s with this spelling and to %s with the canonical one", clip(run.out), clip(ref.out))
			}
			continue
		}
		gout := gin.With(c.Graph.Root, run.outAny)
		memo := model.BisimMemo{}
		for _, el := range elems {
			if !gin.WellFounded(el.P) {
				continue
			}
			if err := model.BisimMemoized(gin, gout, el.P, el.P, el.K, memo); err != nil {
				f.Add("SPELLING-CHANGES-RESULT", where, "with this spelling %s %s no longer denotes the input's tree: %v", el.K, el.P.Ptr, err)
				break
			}
			checkCutPoints(f, gin, gout, c.Graph.Root, el, false, true)
		}
		if len(f.Atoms) > 3 {
			break
		}
	}
	if len(f.Atoms) == 0 {
		checkC11Elems(f, c, gin, texts)
	}
	return f, external
}

// rewrite applies one equivalence-preserving rewrite to a location.
func rewriteLocation(t *rapid.T, loc string, isFile bool) string {
	u, err := url.Parse(loc)
	if err != nil {
		return loc
	}
	segs := strings.Split(u.Path, "/")
	frag, query := "", ""
	if i := strings.Index(loc, "#"); i >= 0 {
		frag = loc[i:]
		loc = loc[:i]
	}
	if i := strings.Index(loc, "?"); i >= 0 {
		query = loc[i:]
		loc = loc[:i]
	}
	insertAt := func(extra string) string {
		// insert into the path part of the textual location
		// (never directly after the authority: "file:////w" and "//w" would read as another authority)
		if len(segs) < 3 {
			return loc
		}
		i := 2 + gen.Uniform(t, "at", len(segs)-2)
		marker := "/" + strings.Join(segs[i:], "/")
		idx := strings.LastIndex(loc, marker)
		if idx < 0 || len(segs) < 2 {
			return loc
		}
		return loc[:idx] + extra + marker
	}
	switch gen.Uniform(t, "rewrite", 7) {
	case 0:
		loc = insertAt("/.")
	case 1:
		loc = insertAt("/zz/..")
	case 2:
		loc = insertAt("/")
	case 3:
		if i := strings.Index(loc, ":"); i > 0 && !strings.Contains(loc[:i], "/") {
			loc = strings.ToUpper(loc[:i]) + loc[i:]
		}
	case 4:
		if frag == "" {
			frag = []string{"#", "#/definitions/x", "#frag"}[gen.Uniform(t, "frag", 3)]
		}
	case 5:
		if isFile && query == "" {
			query = []string{"?x=1", "?"}[gen.Uniform(t, "query", 2)]
		}
	case 6:
		if isFile {
			// path <-> file:/ <-> file:///
			lower := strings.ToLower(loc)
			switch {
			case strings.HasPrefix(lower, "file:///"):
				if gen.Pct(t, "plainpath", 50) {
					loc = loc[len("file://"):]
				} else {
					loc = loc[:len("file:")] + loc[len("file://"):]
				}
			case strings.HasPrefix(lower, "file:/"):
				loc = loc[:len("file:")] + "//" + loc[len("file:"):]
			case strings.HasPrefix(loc, "/"):
				loc = "file://" + loc
			}
		}
	}
	return loc + query + frag
}

func genC11(t *rapid.T) c11Case {
	o := gen.DefaultGraphOpts()
	o.DagPct = 60
	o.MaxDocs = 4
	o.Spell = gen.SpellAll &^ (gen.SpellRootRel | gen.SpellMessy) // (root-relative and non-canonical absolute $refs would not survive the textual relocation below)
	g := gen.Graph(t, o)
	wd, _ := os.Getwd()
	kind := gen.Uniform(t, "location", 6)
	c := c11Case{}
	isFile := true
	switch kind {
	case 0: // absolute file location
		c.Graph = g
	case 1: // below the working directory: relative spellings possible
		// (the working directory itself varies from case to case: it must be looked up when it is needed)
		c.Cwd = wd + []string{"", "/c11-a", "/c11-b/deeper"}[gen.Uniform(t, "cwd", 3)]
		c.Graph = relocate(g, "file://"+c.Cwd+"/w/")
	case 4: // a directory whose name holds characters that url.URL may or may not escape
		// (canonical text: the escaped one, as net/url prints it; the literal spelling is one of the equivalent spellings)
		c.Graph = relocate(g, "file:///data/a%28b%29/it%27s/w/")
	case 5: // a first segment that looks like a drive letter, and upper-case letters in the path (paths are case-sensitive)
		c.Graph = relocate(g, "file:///C:/Specs/Api/w/")
	case 2:
		c.Graph = relocate(g, "http://r.example/w/")
		isFile = false
	default:
		c.Graph = relocate(g, "https://r.example:8443/base/w/")
		isFile = false
	}
	c.Spellings = []string{c.Graph.Root}
	n := 2 + gen.Uniform(t, "nspellings", 5)
	for i := 0; i < n; i++ {
		loc := c.Graph.Root
		if c.Cwd != "" && gen.Pct(t, "relative", 60) {
			loc = []string{"w/a/root.json", "./w/a/root.json", "w/../w/a/root.json"}[gen.Uniform(t, "rel", 3)]
		}
		for j, m := 0, 1+gen.Uniform(t, "nrewrites", 3); j < m; j++ {
			loc = rewriteLocation(t, loc, isFile)
		}
		if strings.Contains(loc, "%28") && rapid.Bool().Draw(t, "literal") {
			// the same location with the characters written literally (RFC 3986 6.2.2.2: equivalent)
			loc = strings.NewReplacer("%28", "(", "%29", ")", "%27", "'").Replace(loc)
		}
		c.Spellings = append(c.Spellings, loc)
	}
	sort.Strings(c.Spellings[1:])
	// up to three elements of the root for the entry points that take a base location
	if els := rootElems(c.Graph.Graph(), c.Graph.Root); len(els) > 0 {
		for i, n := 0, 1+gen.Uniform(t, "nelems", 3); i < n; i++ {
			el := els[gen.Uniform(t, "elem", len(els))]
			if es := c11Entries[el.K]; len(es) > 0 {
				c.Elems = append(c.Elems, c11Elem{Entry: es[gen.Uniform(t, "entry", len(es))], Ptr: el.P.Ptr})
			}
		}
	}
	return c
}

func TestC11(t *testing.T) {
	r := rec("C11")
	rapid.Check(t, func(t *rapid.T) {
		c := genC11(t)
		vstat.InFlight("C11", "spellings", c)
		f, external := oracleC11(c)
		vstat.ClearInFlight("C11")
		r.Eval()
		r.Count("spellings expanded", len(c.Spellings))
		r.Count("element calls (base-location entry points)", len(c.Elems)*len(c.Spellings))
		for _, e := range c.Elems {
			r.Label("entry=" + e.Entry)
		}
		r.LabelIf(c.Cwd != "", "relative to the working directory")
		r.LabelIf(strings.HasPrefix(c.Graph.Root, "http"), "http(s) location")
		r.LabelIf(strings.HasPrefix(c.Graph.Root, "file"), "file location")
		for _, s := range c.Spellings[1:] {
			r.LabelIf(strings.Contains(s, "?"), "spelling with query")
			r.LabelIf(strings.Contains(s, "#"), "spelling with fragment")
			r.LabelIf(!strings.Contains(s, ":"), "spelling without scheme")
		}
		if external && len(c.Spellings) >= 3 {
			r.NonTrivial(mustJSON(c), c)
		}
		verdict(t, "C11", "spellings", c, f)
	})
}

func TestReplayC11(t *testing.T) {
	runReplays(t, "C11", func(variant string, raw json.RawMessage) *vstat.Failure {
		var c c11Case
		if err := json.Unmarshal(raw, &c); err != nil {
			return &vstat.Failure{Atoms: []vstat.Atom{{Kind: "HARNESS", Detail: err.Error()}}}
		}
		f, _ := oracleC11(c)
		return f
	})
}
