package props

// Development aid: greedy minimisation of a failing graph case (delta debugging on the JSON of the documents).
//   VERIF_MINIMIZE=<replay file> go test -run TestMinimize
// Supported: C02, C03, C08, C09 replay files. Prints the minimised replay file to $VERIF_MINIMIZE.min.json

import (
	"encoding/json"
	"os"
	"sort"
	"testing"

	"verif/gen"
	"verif/vstat"
)

func TestMinimize(t *testing.T) {
	path := os.Getenv("VERIF_MINIMIZE")
	if path == "" {
		t.Skip()
	}
	b, err := os.ReadFile(path)
	if err != nil {
		t.Fatal(err)
	}
	var rf vstat.ReplayFile
	if err := json.Unmarshal(b, &rf); err != nil {
		t.Fatal(err)
	}
	var generic map[string]any
	_ = json.Unmarshal(rf.Case, &generic)
	graphOf := func(c map[string]any) gen.GraphCase {
		var g gen.GraphCase
		_ = json.Unmarshal(mustJSON(c["graph"]), &g)
		return g
	}
	fails := func(c map[string]any) string {
		raw := mustJSON(c)
		var f *vstat.Failure
		for i := 0; i < 3; i++ { // order-dependent failures: a few attempts
			switch rf.Property {
			case "C02":
				var cc c02Case
				_ = json.Unmarshal(raw, &cc)
				f = oracleC02(cc)
			case "C03":
				var cc c03Case
				_ = json.Unmarshal(raw, &cc)
				f, _ = oracleC03(cc)
			case "C08":
				var cc c08Case
				_ = json.Unmarshal(raw, &cc)
				f, _ = oracleC08(cc)
			case "C09":
				var cc c09Case
				_ = json.Unmarshal(raw, &cc)
				f, _ = oracleC09(cc)
			default:
				t.Fatalf("unsupported property %s", rf.Property)
			}
			_, unknown := vstat.Split(rf.Property, f)
			if len(unknown) > 0 {
				return unknown[0].Kind
			}
		}
		return ""
	}
	want := fails(generic)
	if want == "" {
		t.Fatalf("the case does not fail")
	}
	setGraph := func(c map[string]any, g gen.GraphCase) map[string]any {
		out := map[string]any{}
		for k, v := range c {
			out[k] = v
		}
		var gv any
		_ = json.Unmarshal(mustJSON(g), &gv)
		out["graph"] = gv
		return out
	}
	cur := generic
	for changed := true; changed; {
		changed = false
		g := graphOf(cur)
		urls := make([]string, 0, len(g.Docs))
		for u := range g.Docs {
			urls = append(urls, u)
		}
		sort.Strings(urls)
		// drop whole documents
		for _, u := range urls {
			if u == g.Root {
				continue
			}
			ng := gen.GraphCase{Root: g.Root, Docs: map[string]string{}}
			for k, v := range g.Docs {
				if k != u {
					ng.Docs[k] = v
				}
			}
			if cand := setGraph(cur, ng); fails(cand) == want {
				cur, changed = cand, true
				break
			}
		}
		if changed {
			continue
		}
		// drop members / elements anywhere
	outer:
		for _, u := range urls {
			var doc any
			_ = json.Unmarshal([]byte(g.Docs[u]), &doc)
			var slots []func() (undo func())
			var walk func(n any)
			walk = func(n any) {
				switch x := n.(type) {
				case map[string]any:
					for _, k := range sortedKeys(x) {
						k := k
						if k == "swagger" || k == "info" {
							continue
						}
						slots = append(slots, func() func() {
							old, had := x[k]
							delete(x, k)
							return func() {
								if had {
									x[k] = old
								}
							}
						})
						walk(x[k])
					}
				case []any:
					for _, e := range x {
						walk(e)
					}
				}
			}
			walk(doc)
			for _, apply := range slots {
				undo := apply()
				ng := gen.GraphCase{Root: g.Root, Docs: map[string]string{}}
				for k, v := range g.Docs {
					ng.Docs[k] = v
				}
				ng.Docs[u] = string(mustJSON(doc))
				if cand := setGraph(cur, ng); fails(cand) == want {
					cur, changed = cand, true
					break outer
				}
				undo()
			}
		}
	}
	rf.Case = mustJSON(cur)
	rf.Note = "minimised by TestMinimize from " + path
	out, _ := json.MarshalIndent(rf, "", " ")
	_ = os.WriteFile(path+".min.json", out, 0o644)
	g := graphOf(cur)
	for u, d := range g.Docs {
		t.Logf("%s %s", u, d)
	}
	t.Logf("failure kind %s; written to %s.min.json", want, path)
}
