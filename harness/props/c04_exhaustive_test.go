package props

import (
	"encoding/json"
	"fmt"
	"os"
	"strconv"
	"testing"
	"time"

	"verif/gen"
	"verif/vstat"
)

func shardInfo() (shard, nshards int) {
	shard, _ = strconv.Atoi(os.Getenv("VERIF_SHARD"))
	nshards, _ = strconv.Atoi(os.Getenv("VERIF_NSHARDS"))
	if nshards <= 0 {
		nshards = 1
	}
	if shard < 0 || shard >= nshards {
		shard = 0
	}
	return
}

type c04Small struct {
	Small gen.SmallGraph `json:"small"`
	c04Case
}

// smallEntries: the entry points exercised for a small graph.
func smallEntries(s gen.SmallGraph) [][2]string {
	out := [][2]string{{"ExpandSpec", ""}}
	switch s.EntryKind {
	case 0:
		out = append(out, [2]string{"ExpandSchema", s.ElemPointer()}, [2]string{"ExpandSchemaWithBasePath", s.ElemPointer()})
	case 1:
		out = append(out, [2]string{"ExpandParameter", s.ElemPointer()}, [2]string{"ExpandParameterWithRoot", s.ElemPointer()})
	case 2:
		out = append(out, [2]string{"ExpandResponse", s.ElemPointer()}, [2]string{"ExpandResponseWithRoot", s.ElemPointer()})
	}
	return out
}

// runC04Exhaustive enumerates the family of small reference graphs completely
// (this shard's share of it) and runs every member through the worker.
func runC04Exhaustive(t *testing.T, r *vstat.Recorder) {
	maxN := 2
	if tier() == "thorough" {
		maxN = 3
	}
	if v := os.Getenv("VERIF_C04_MAXN"); v != "" {
		maxN, _ = strconv.Atoi(v)
	}
	if maxN <= 0 {
		return
	}
	shard, nshards := shardInfo()
	var batch []c04Case
	jobs, k1seen, k1run := 0, 0, 0
	failed := false
	flush := func() {
		if len(batch) == 0 || failed {
			batch = batch[:0]
			return
		}
		o := callWorker(c04StackMB, "c04batch", batch, 120*time.Second)
		var results []c04Res
		if !o.Died && !o.Hung && o.Res.Panic == "" {
			if err := json.Unmarshal(o.Res.Data, &results); err != nil || len(results) != len(batch) {
				t.Fatalf("harness: bad batch answer: %v", err)
			}
			for i, c := range batch {
				f := &vstat.Failure{}
				b, _ := json.Marshal(results[i])
				judgeC04(f, c, callOutcome{Res: wresult{Data: b}})
				if !f.Empty() {
					failed = true
					verdict(t, "C04", "small", c, f)
				}
			}
		} else {
			// attribute the death / panic / hang to a single job
			for _, c := range batch {
				f, _ := oracleC04(c)
				if !f.Empty() {
					failed = true
					verdict(t, "C04", "small", c, f)
				}
			}
		}
		jobs += len(batch)
		batch = batch[:0]
	}
	total := gen.EnumerateSmall(maxN, true, func(idx int, s gen.SmallGraph) {
		if idx%nshards != shard || failed {
			return
		}
		g := s.Case()
		if s.IDKind == "reldir" && k1Shape(g) {
			// known finding K1 (unbounded recursion): excluded by construction, a sample is run below
			k1seen++
			r.Excluded("K1 shape: relative-directory id on a reference cycle")
			if k1seen%97 == 1 && k1run < 3 {
				k1run++
				c := c04Case{Graph: g, Entry: "ExpandSpec"}
				f := &vstat.Failure{}
				o := callWorker(4, "c04", c, 60*time.Second)
				judgeC04(f, c, o)
				r.Eval()
				verdict(t, "C04", "small", c, f)
			}
			return
		}
		nt := false
		for i := 0; i < s.N; i++ {
			if s.OnCycle(i) {
				nt = true
			}
		}
		if nt || s.IDNode >= 0 {
			r.NonTrivial(mustJSON(s), s)
		}
		for _, e := range smallEntries(s) {
			for opt := 0; opt < 4; opt++ {
				batch = append(batch, c04Case{Graph: g, Entry: e[0], Elem: e[1], Skip: opt&1 != 0, Continue: opt&2 != 0})
			}
		}
		if len(batch) >= 240 {
			flush()
		}
	})
	flush()
	r.EvalN(jobs)
	r.Count("exhaustive family size (graphs, all shards)", 0)
	r.Max("max:exhaustive family size (graphs)", int64(total))
	r.Count("exhaustive jobs run", jobs)
	r.Label(fmt.Sprintf("exhaustive: digraphs on <=%d nodes", maxN))
	r.SetExhaustive(!failed)
}
