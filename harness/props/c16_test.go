package props

// C16 — Calls share no hidden state.
//
// A generated history of calls over a mutable in-memory document store. After
// every call the result must be correct for the store as it is NOW (model
// oracle), the loader must have been asked for exactly the documents reachable
// from the call's arguments, and the built-in meta-schemas must still resolve
// to what the embedded assets hold.

import (
	"bytes"
	"encoding/json"
	"fmt"
	"os"
	"path/filepath"
	"sort"
	"strings"
	"testing"
	"time"

	"github.com/go-openapi/spec"
	"pgregory.net/rapid"

	"verif/gen"
	"verif/model"
	"verif/vstat"
)

type c16Step struct {
	Op      string   `json:"op"`                // mutate | expandspec | elem | resolve | meta
	Docs    []string `json:"docs,omitempty"`    // mutate: documents switched ...
	Variant int      `json:"variant,omitempty"` // ... to their content in this variant; calls: which variant's root document is passed
	Call    elemCall `json:"call,omitempty"`    // elem
	Ref     string   `json:"ref,omitempty"`     // resolve / meta
	Kind    string   `json:"kind,omitempty"`    // resolve
	Abs     bool     `json:"abs,omitempty"`
}

type c16Case struct {
	Variants []gen.GraphCase `json:"variants"` // same URLs, different content
	Steps    []c16Step       `json:"steps"`
}

// view: the documents a call sees: the store's current version of each document, the passed root for the root URL.
func (c c16Case) view(store map[string]int, rootVariant int) gen.GraphCase {
	v := gen.GraphCase{Root: gen.RootURL, Docs: map[string]string{}}
	for u, i := range store {
		if d, ok := c.Variants[i].Docs[u]; ok {
			v.Docs[u] = d
		}
	}
	v.Docs[gen.RootURL] = c.Variants[rootVariant].Docs[gen.RootURL]
	return v
}

// c16IDs: `id`s of root schemas, several under the scheme and host of the documents of the histories.
var c16IDs = []string{"other.json", "file:///w/a/sib.json", "file:///w/ids/x.json", "sub/", "http://r.example/w/ids.json", "https://r.example:8443/ids.json", "http://json-schema.org/draft-04/schema#", "#anchor"}

var metaAssets = map[string]any{}

var metaRefs = []string{
	"http://swagger.io/v2/schema.json#/definitions/info",
	"http://swagger.io/v2/schema.json#/definitions/license/properties/name",
	"http://swagger.io/v2/schema.json#/definitions/schema/properties/maximum",
	"http://json-schema.org/draft-04/schema#/definitions/positiveInteger",
	"http://json-schema.org/draft-04/schema#/properties/additionalItems",
	"http://json-schema.org/draft-04/schema#/definitions/schemaArray",
}

// checkMeta: the built-in meta-schemas resolve (from the package's own cache: the loader refuses them) and
// what they resolve to equals the embedded asset decoded afresh.
func checkMeta(f *vstat.Failure, ref string, where string) {
	r := spec.MustCreateRef(ref)
	refuse := func(p string) (json.RawMessage, error) {
		return nil, fmt.Errorf("the loader must not be needed for a built-in meta-schema (asked for %s)", p)
	}
	// the reference is the asset file itself (what the package embeds), decoded here - not anything the package
	// hands out, which could share storage with what an earlier call has touched
	asset := "schemas/jsonschema-draft-04.json"
	if strings.HasPrefix(ref, "http://swagger.io") {
		asset = "schemas/v2/schema.json"
	}
	repo := os.Getenv("VERIF_REPO")
	if repo == "" {
		repo = "/repo"
	}
	freshAny := metaAssets[asset]
	if freshAny == nil {
		if b, err := os.ReadFile(filepath.Join(repo, asset)); err == nil {
			var sch spec.Schema
			if json.Unmarshal(b, &sch) == nil {
				_ = json.Unmarshal(mustJSON(&sch), &freshAny)
				metaAssets[asset] = freshAny // (read-only from here on: decoded once per process)
			}
		}
	}
	if freshAny == nil {
		var fresh *spec.Schema
		if strings.HasPrefix(ref, "http://swagger.io") {
			fresh = spec.MustLoadSwagger20Schema()
		} else {
			fresh = spec.MustLoadJSONSchemaDraft04()
		}
		_ = json.Unmarshal(mustJSON(fresh), &freshAny)
	}
	want, err := model.GetIn(freshAny, r.GetPointer().String())
	if err != nil {
		f.Add("HARNESS", where, "%v", err)
		return
	}
	guard(f, where, func() {
		got, err := spec.ResolveRefWithBase(nil, &r, &spec.ExpandOptions{RelativeBase: "file:///nowhere/x.json", PathLoader: refuse})
		if err != nil {
			f.Add("META-SCHEMA", where, "built-in meta-schema no longer resolvable: %s: %v", ref, err)
			return
		}
		var wantSch spec.Schema
		_ = json.Unmarshal(mustJSON(want), &wantSch)
		var a, b any
		_ = json.Unmarshal(mustJSON(wantSch), &a)
		_ = json.Unmarshal(mustJSON(got), &b)
		if d := model.Diff(a, b); len(d) > 0 {
			f.Add("META-SCHEMA", where, "%s resolves to something else than the embedded asset holds: %s", ref, d[0].String())
		}
		// expanding a schema that points into the meta-schema works as well and leaves it intact
		sch := spec.RefSchema(ref)
		old := spec.PathLoader
		spec.PathLoader = refuse
		err = spec.ExpandSchema(sch, nil, nil)
		spec.PathLoader = old
		if err != nil {
			f.Add("META-SCHEMA", where, "expanding a $ref into the built-in meta-schema failed: %s: %v", ref, err)
		}
	})
}

type c16Result struct {
	Err   string   `json:"err,omitempty"`
	Out   []byte   `json:"out,omitempty"`
	Skip  bool     `json:"skip,omitempty"`
	Loads []string `json:"loads,omitempty"`
	// OptsDiff is non-empty when the option structure passed to the call came back changed.
	OptsDiff string `json:"opts_diff,omitempty"`
}

// execCall runs one call step on a view (used in-process and in the fresh worker).
func execCall(view gen.GraphCase, st c16Step) c16Result {
	switch st.Op {
	case "expandspec":
		run := runExpandSpec(view, nil, spec.ExpandOptions{AbsoluteCircularRef: st.Abs})
		if run.Panic != "" {
			return c16Result{Err: "panic: " + run.Panic}
		}
		r := c16Result{Out: run.OutBytes, Loads: run.Loads, OptsDiff: run.OptsDiff}
		if run.Err != nil {
			r.Err = run.Err.Error()
		}
		return r
	case "elem":
		run := runElem(view, st.Call, nil, nil)
		if run.NotUsable != "" {
			return c16Result{Skip: true}
		}
		if run.Panic != "" {
			return c16Result{Err: "panic: " + run.Panic}
		}
		r := c16Result{Out: run.OutBytes, Loads: run.Loads, OptsDiff: run.OptsDiff}
		if run.Err != nil {
			r.Err = run.Err.Error()
		}
		return r
	}
	return c16Result{Skip: true}
}

func init() {
	jobHandlers["c16call"] = func(raw json.RawMessage) (any, error) {
		var j struct {
			View gen.GraphCase `json:"view"`
			Step c16Step       `json:"step"`
		}
		if err := json.Unmarshal(raw, &j); err != nil {
			return nil, err
		}
		return execCall(j.View, j.Step), nil
	}
}

func oracleC16(c c16Case, fresh bool) (*vstat.Failure, bool) {
	f := &vstat.Failure{}
	store := map[string]int{}
	for u := range c.Variants[0].Docs {
		store[u] = 0
	}
	mutatedSinceCall := false
	nontrivial := false
	calls := 0
	for i, st := range c.Steps {
		where := fmt.Sprintf("step %d (%s)", i, st.Op)
		if st.Variant < 0 || st.Variant >= len(c.Variants) {
			continue
		}
		switch st.Op {
		case "mutate":
			for _, u := range st.Docs {
				if _, ok := c.Variants[st.Variant].Docs[u]; ok {
					if store[u] != st.Variant {
						mutatedSinceCall = true
					}
					store[u] = st.Variant
				}
			}
			continue
		case "meta":
			checkMeta(f, st.Ref, where)
		case "metaexpand":
			// a caller loads a built-in meta-schema and expands its own copy of it
			guard(f, where, func() {
				var sch *spec.Schema
				if st.Ref == "swagger" {
					sch = spec.MustLoadSwagger20Schema()
				} else {
					sch = spec.MustLoadJSONSchemaDraft04()
				}
				refuse := func(p string) (json.RawMessage, error) { return nil, fmt.Errorf("nothing to load (asked for %s)", p) }
				old := spec.PathLoader
				spec.PathLoader = refuse
				err := spec.ExpandSchema(sch, sch, nil)
				spec.PathLoader = old
				if err != nil {
					f.Add("META-SCHEMA", where, "expanding a loaded copy of the %s meta-schema failed: %v", st.Ref, err)
				}
			})
		case "idschema":
			// a call whose root schema declares an `id` (what the resolver learns from it must die with the call)
			guard(f, where, func() {
				in := fmt.Sprintf(`{"id":%q,"title":"with-id","properties":{"p":{"type":"string"}}}`, st.Ref)
				var sch spec.Schema
				_ = json.Unmarshal([]byte(in), &sch)
				refuse := func(p string) (json.RawMessage, error) { return nil, fmt.Errorf("nothing to load (asked for %s)", p) }
				if err := spec.ExpandSchemaWithBasePath(&sch, nil, &spec.ExpandOptions{RelativeBase: gen.RootURL, PathLoader: refuse}); err != nil {
					f.Add("ERROR", where, "expanding a $ref-free schema with id %q failed: %v", st.Ref, err)
					return
				}
				var a, b any
				_ = json.Unmarshal([]byte(in), &a)
				_ = json.Unmarshal(mustJSON(&sch), &b)
				if d := model.Diff(a, b); len(d) > 0 {
					f.Add("STALE-OR-WRONG", where, "a $ref-free schema changed under expansion: %s", d[0].String())
				}
			})
		case "resolve":
			view := c.view(store, st.Variant)
			cf, _ := oracleC05(c05Case{Graph: view, Base: view.Root, Ref: st.Ref, Kind: st.Kind, Modes: []string{"typed", "generic", "location"}})
			for _, a := range cf.Atoms {
				f.Add(a.Kind, where, "%s", a.Detail)
			}
		case "expandspec", "elem":
			view := c.view(store, st.Variant)
			gin := view.Graph()
			res := execCall(view, st)
			if res.Skip {
				continue
			}
			calls++
			if calls > 1 && mutatedSinceCall {
				nontrivial = true
			}
			mutatedSinceCall = false
			if res.OptsDiff != "" {
				f.Add("OPTIONS-CHANGED", where, "the caller's option structure is not what it was before the call: %s", res.OptsDiff)
				break
			}
			if res.Err != "" {
				f.Add("ERROR", where, "call failed on a store whose $refs all resolve: %s", res.Err)
				break
			}
			var out any
			_ = json.Unmarshal(res.Out, &out)
			var elems []model.Elem
			if st.Op == "expandspec" {
				elems = rootElems(gin, view.Root)
				gout := gin.With(view.Root, out)
				memo := model.BisimMemo{}
				for _, el := range elems {
					if !gin.WellFounded(el.P) {
						continue
					}
					if err := model.BisimMemoized(gin, gout, el.P, el.P, el.K, memo); err != nil {
						f.Add("STALE-OR-WRONG", where, "the result is not what the documents hold now: %v", err)
						break
					}
					// the $refs left at cycle cut-points are spelled as a call without history spells them (C03's rule:
					// local pointer into the root, path relative to the root's folder, or canonical URL with AbsoluteCircularRef)
					n := len(f.Atoms)
					checkCutPoints(f, gin, gout, view.Root, el, st.Abs, true)
					for j := n; j < len(f.Atoms); j++ {
						f.Atoms[j].Path = where + " " + f.Atoms[j].Path
					}
					if len(f.Atoms) > n {
						break
					}
				}
			} else {
				checkElemMeaning(f, gin, view.Root, st.Call, out, false)
				for j := range f.Atoms {
					f.Atoms[j].Path = where + " " + f.Atoms[j].Path
				}
				elems = []model.Elem{{P: model.Pos{Doc: view.Root, Ptr: st.Call.Elem}, K: kindOfEntry(st.Call.Entry)}}
			}
			// documents are loaded afresh: the loader saw exactly the documents reachable from the arguments
			rootViaLoader := st.Op == "elem" && st.Call.Root == ""
			var want []string
			for u := range gin.ReachableDocs(elems) {
				if u != view.Root {
					want = append(want, u)
				}
			}
			sort.Strings(want)
			got := map[string]bool{}
			for _, u := range res.Loads {
				if u != view.Root {
					got[u] = true
				}
			}
			gotList := make([]string, 0, len(got))
			for u := range got {
				gotList = append(gotList, u)
			}
			sort.Strings(gotList)
			_ = rootViaLoader
			if strings.Join(gotList, " ") != strings.Join(want, " ") && (st.Op == "expandspec" || st.Call.Root == "") {
				f.Add("LOADS", where, "documents requested from the loader during this call: %q; documents reachable from its arguments: %q (something was served from an earlier call, or fetched needlessly)", gotList, want)
			}
			// differential: the same call in a fresh process
			if fresh && f.Empty() && gin.Acyclic(elems) {
				o := callWorker(64, "c16call", map[string]any{"view": view, "step": st}, 60*time.Second)
				if o.Died || o.Hung || o.Res.Panic != "" {
					f.Add("HARNESS", where, "fresh-process run failed: %s %s", o.Res.Panic, tailOf(o.Stderr))
				} else {
					var fr c16Result
					_ = json.Unmarshal(o.Res.Data, &fr)
					if fr.Err != res.Err || !bytes.Equal(fr.Out, res.Out) {
						f.Add("HISTORY-DEPENDENT", where, "in this history the call returned %s (err %q); in a fresh process with the same documents it returns %s (err %q)", clip(res.Out), res.Err, clip(fr.Out), fr.Err)
					}
				}
			}
		}
		if !f.Empty() {
			return f, nontrivial
		}
	}
	// the meta-schemas stay resolvable and unmodified however many calls have been made
	for _, ref := range metaRefs[:2] {
		checkMeta(f, ref, "after the history")
	}
	checkMeta(f, metaRefs[3], "after the history")
	return f, nontrivial
}

func genC16(t *rapid.T) c16Case {
	nv := 2 + gen.Uniform(t, "nvariants", 2)
	c := c16Case{}
	o := gen.DefaultGraphOpts()
	o.MaxDocs = 4
	o.DagPct = 60
	o.QuoteNames = false
	for v := 0; v < nv; v++ {
		o.LabelPrefix = fmt.Sprintf("v%d-", v)
		c.Variants = append(c.Variants, gen.Graph(t, o))
	}
	// sometimes one of the documents lives on the host of a built-in meta-schema (under another path): nothing
	// about such a document may be remembered from one call to the next either
	if gen.Pct(t, "well-known host", 25) {
		to := []string{"http://json-schema.org/draft-07/schema", "http://swagger.io/v3/schema.json", "http://json-schema.org/learn/x.json"}[gen.Uniform(t, "wkhost", 3)]
		for i := range c.Variants {
			c.Variants[i] = gen.Rehome(c.Variants[i], "https://s.example/sec.json", to)
		}
	}
	// every variant must know every URL used by any variant (a document that does not exist in a variant is taken from variant 0)
	all := map[string]bool{}
	for _, v := range c.Variants {
		for u := range v.Docs {
			all[u] = true
		}
	}
	urls := make([]string, 0, len(all))
	for u := range all {
		urls = append(urls, u)
	}
	sort.Strings(urls)
	// a variant's documents may refer to documents that only this variant has: keep variants self-contained by
	// switching ALL documents of a variant at once in most mutations
	for u := range all {
		if _, ok := c.Variants[0].Docs[u]; !ok {
			c.Variants[0].Docs[u] = `{"title":"v0-filler"}`
		}
	}
	n := 3 + gen.Uniform(t, "nsteps", 10)
	for i := 0; i < n; i++ {
		v := gen.Uniform(t, "variant", nv)
		switch k := gen.Uniform(t, "step", 10); {
		case k <= 2:
			// switch the whole store to variant v (documents this variant lacks keep their content, nothing in v refers to them)
			c.Steps = append(c.Steps, c16Step{Op: "mutate", Variant: v, Docs: urls})
		case k == 3 && gen.Pct(t, "metaexpand", 30):
			c.Steps = append(c.Steps, c16Step{Op: "metaexpand", Ref: []string{"draft4", "swagger"}[gen.Uniform(t, "whichmeta", 2)]})
		case k == 3 && rapid.Bool().Draw(t, "idschema"):
			c.Steps = append(c.Steps, c16Step{Op: "idschema", Ref: c16IDs[gen.Uniform(t, "id", len(c16IDs))]})
		case k == 3:
			c.Steps = append(c.Steps, c16Step{Op: "meta", Ref: metaRefs[gen.Uniform(t, "meta", len(metaRefs))]})
		case k <= 6:
			c.Steps = append(c.Steps, c16Step{Op: "expandspec", Variant: v, Abs: rapid.Bool().Draw(t, "abs")})
		default:
			c.Steps = append(c.Steps, c16Step{Op: "elem", Variant: v})
		}
	}
	// calls must agree with the store: a call on variant v's root sees the store's documents, which must be v's.
	// Fix up: before each call, if the store is not entirely variant v, insert the mutation (that is the scenario
	// of the property: same locations, changed content between calls).
	var steps []c16Step
	cur := 0
	for _, st := range c.Steps {
		switch st.Op {
		case "mutate":
			cur = st.Variant
		case "expandspec", "elem":
			if cur != st.Variant {
				steps = append(steps, c16Step{Op: "mutate", Variant: st.Variant, Docs: urls})
				cur = st.Variant
			}
			if st.Op == "elem" {
				calls := callsFor(c.Variants[st.Variant].Graph(), gen.RootURL, false)
				var usable []elemCall
				for _, cl := range calls {
					if !rootBased[cl.Entry] { // multi-document graphs: the base-location entry points
						usable = append(usable, cl)
					}
				}
				if len(usable) == 0 {
					continue
				}
				st.Call = usable[gen.Uniform(t, "call", len(usable))]
			}
		}
		steps = append(steps, st)
	}
	c.Steps = steps
	return c
}

func TestC16(t *testing.T) {
	r := rec("C16")
	rapid.Check(t, func(t *rapid.T) {
		c := genC16(t)
		fresh := gen.Pct(t, "fresh-process-differential", 15)
		vstat.InFlight("C16", "history", c)
		f, nt := oracleC16(c, fresh)
		vstat.ClearInFlight("C16")
		r.Eval()
		r.Count("steps", len(c.Steps))
		for _, st := range c.Steps {
			r.Label("op=" + st.Op)
		}
		r.LabelIf(fresh, "fresh-process differential")
		r.LabelIf(nt, "document changed between two calls that read it")
		if nt {
			r.NonTrivial(mustJSON(c), c)
		}
		verdict(t, "C16", "history", c, f)
	})
}

func TestReplayC16(t *testing.T) {
	runReplays(t, "C16", func(variant string, raw json.RawMessage) *vstat.Failure {
		var c c16Case
		if err := json.Unmarshal(raw, &c); err != nil {
			return &vstat.Failure{Atoms: []vstat.Atom{{Kind: "HARNESS", Detail: err.Error()}}}
		}
		f, _ := oracleC16(c, true)
		return f
	})
}
