package props

// Shared plumbing for the expansion properties: in-memory loader, running an
// expansion on a generated graph, building the output graph.

import (
	"encoding/json"
	"fmt"
	"net/url"
	"sort"
	"sync"

	"github.com/go-openapi/spec"

	"verif/gen"
	"verif/model"
)

// memLoader serves the documents of a case under their canonical URLs and logs
// every request.
type memLoader struct {
	mu      sync.Mutex
	byKey   map[string]string
	docs    map[string]string
	refused map[string]bool
	log     []string
}

func newLoader(docs map[string]string, refused map[string]bool) *memLoader {
	l := &memLoader{docs: docs, refused: refused, byKey: map[string]string{}}
	for u := range docs {
		l.byKey[urlKey(u)] = u
	}
	return l
}

// urlKey identifies a document modulo percent-encoding normalisation (RFC 3986 6.2.2): like a real loader,
// the in-memory one serves file:///a%28b%29/x.json and file:///a(b)/x.json alike. What was literally asked
// for is kept in the log; whether it is ONE canonical text is C11's business.
func urlKey(s string) string {
	u, err := url.Parse(s)
	if err != nil {
		return s
	}
	return u.Scheme + "://" + u.Host + u.Path + "?" + u.RawQuery
}

func (l *memLoader) load(p string) (json.RawMessage, error) {
	l.mu.Lock()
	defer l.mu.Unlock()
	l.log = append(l.log, p)
	if u, ok := l.byKey[urlKey(p)]; ok && !l.refused[u] {
		return json.RawMessage(l.docs[u]), nil
	}
	return nil, fmt.Errorf("no such document %q", p)
}

func (l *memLoader) requests() []string {
	l.mu.Lock()
	defer l.mu.Unlock()
	return append([]string{}, l.log...)
}

func (l *memLoader) requestSet() []string {
	set := map[string]bool{}
	for _, p := range l.requests() {
		set[p] = true
	}
	out := make([]string, 0, len(set))
	for p := range set {
		out = append(out, p)
	}
	sort.Strings(out)
	return out
}

type expandRun struct {
	OptsDiff string // non-empty: the caller's option structure changed during the call
	Err      error
	Panic    string
	OutBytes []byte
	Out      any
	Loads    []string
}

// runExpandSpec decodes the root of c into *Swagger and expands it.
func runExpandSpec(c gen.GraphCase, refused map[string]bool, opts spec.ExpandOptions) (res expandRun) {
	return runExpandSpecOn([]byte(c.Docs[c.Root]), c, refused, opts)
}

// runExpandSpecOn expands rootJSON (served documents are those of c).
func runExpandSpecOn(rootJSON []byte, c gen.GraphCase, refused map[string]bool, opts spec.ExpandOptions) (res expandRun) {
	var sw spec.Swagger
	if err := json.Unmarshal(rootJSON, &sw); err != nil {
		res.Panic = "harness: root does not decode: " + err.Error()
		return
	}
	l := newLoader(c.Docs, refused)
	if opts.RelativeBase == "" {
		opts.RelativeBase = c.Root
	}
	opts.PathLoader = l.load
	before := opts
	func() {
		defer func() {
			if r := recover(); r != nil {
				res.Panic = fmt.Sprint(r)
			}
		}()
		res.Err = spec.ExpandSpec(&sw, &opts)
	}()
	if opts.RelativeBase != before.RelativeBase || opts.SkipSchemas != before.SkipSchemas || opts.ContinueOnError != before.ContinueOnError || opts.AbsoluteCircularRef != before.AbsoluteCircularRef || opts.PathLoader == nil {
		res.OptsDiff = fmt.Sprintf("RelativeBase %q -> %q (flags %v/%v/%v -> %v/%v/%v)", before.RelativeBase, opts.RelativeBase, before.SkipSchemas, before.ContinueOnError, before.AbsoluteCircularRef, opts.SkipSchemas, opts.ContinueOnError, opts.AbsoluteCircularRef)
	}
	res.Loads = l.requests()
	if res.Panic != "" {
		return
	}
	b, err := json.Marshal(&sw)
	if err != nil {
		res.Panic = "result does not encode: " + err.Error()
		return
	}
	res.OutBytes = b
	if err := json.Unmarshal(b, &res.Out); err != nil {
		res.Panic = "result is not JSON: " + err.Error()
	}
	return
}

// rootElems: the elements of the root document an ExpandSpec call processes.
func rootElems(g *model.Graph, root string) []model.Elem { return g.TopElements(root) }
