package props

// C20 — Validation accessors are lossless and the clear operations are exact.
//
// Reference model: a plain map keyword -> value. Carriers: Schema, Parameter,
// Header, Items and the bare CommonValidations / SchemaValidations.

import (
	"encoding/json"
	"fmt"
	"reflect"
	"sort"
	"testing"

	"github.com/go-openapi/spec"
	"pgregory.net/rapid"

	"verif/gen"
	"verif/model"
	"verif/vstat"
)

var (
	c20Number = []string{"maximum", "exclusiveMaximum", "minimum", "exclusiveMinimum", "multipleOf"}
	c20String = []string{"maxLength", "minLength", "pattern"}
	c20Array  = []string{"maxItems", "minItems", "uniqueItems"}
	c20Object = []string{"maxProperties", "minProperties", "patternProperties"}
	c20All    = append(append(append(append([]string{}, c20Number...), c20String...), c20Array...), append(c20Object, "enum")...)
	c20Family = map[string][]string{"number": c20Number, "string": c20String, "array": c20Array, "object": c20Object}
)

type valSet map[string]any // keyword -> JSON value

type c20Op struct {
	Op  string `json:"op"`            // set, with, get, clear:number|string|array|object, has
	Set valSet `json:"set,omitempty"` // for set / with
	NCB int    `json:"ncb,omitempty"` // number of callbacks for clear
}

type c20Case struct {
	Carrier string  `json:"carrier"` // schema, parameter, header, items, common, schemaValidations
	Base    string  `json:"base"`    // JSON of the carrier before the operations (sentinels in the non-validation fields)
	Ops     []c20Op `json:"ops"`
}

func isSimple(carrier string) bool { return carrier != "schema" && carrier != "schemaValidations" }

// toValidations builds the library's validation set from the model's.
func toValidations(vs valSet) spec.SchemaValidations {
	var out spec.SchemaValidations
	b, _ := json.Marshal(vs)
	_ = json.Unmarshal(b, &out)
	return out
}

// fromValidations reads a library validation set back into the model's terms:
// a keyword is present iff it is "set" (non-nil pointer, true, non-empty string, non-nil slice/map).
func fromValidations(v spec.SchemaValidations) valSet {
	out := valSet{}
	num := func(k string, p *float64) {
		if p != nil {
			out[k] = *p
		}
	}
	nat := func(k string, p *int64) {
		if p != nil {
			out[k] = float64(*p)
		}
	}
	num("maximum", v.Maximum)
	num("minimum", v.Minimum)
	num("multipleOf", v.MultipleOf)
	nat("maxLength", v.MaxLength)
	nat("minLength", v.MinLength)
	nat("maxItems", v.MaxItems)
	nat("minItems", v.MinItems)
	nat("maxProperties", v.MaxProperties)
	nat("minProperties", v.MinProperties)
	if v.ExclusiveMaximum {
		out["exclusiveMaximum"] = true
	}
	if v.ExclusiveMinimum {
		out["exclusiveMinimum"] = true
	}
	if v.UniqueItems {
		out["uniqueItems"] = true
	}
	if v.Pattern != "" {
		out["pattern"] = v.Pattern
	}
	if v.Enum != nil {
		var e any
		_ = json.Unmarshal(mustJSON(v.Enum), &e)
		out["enum"] = e
	}
	if v.PatternProperties != nil {
		var e any
		_ = json.Unmarshal(mustJSON(v.PatternProperties), &e)
		out["patternProperties"] = e
	}
	return out
}

// carrierOps adapts one carrier value.
type carrierOps struct {
	ptr   any
	set   func(spec.SchemaValidations)
	with  func(spec.SchemaValidations)
	get   func() spec.SchemaValidations
	clear map[string]func(cbs ...func(string, interface{}))
	has   map[string]func() bool
}

func newCarrier(kind string, base []byte) (*carrierOps, error) {
	c := &carrierOps{clear: map[string]func(cbs ...func(string, interface{})){}, has: map[string]func() bool{}}
	common := func(cv *spec.CommonValidations) {
		c.clear["number"], c.clear["string"], c.clear["array"] = cv.ClearNumberValidations, cv.ClearStringValidations, cv.ClearArrayValidations
		c.has["number"] = func() bool { return cv.HasNumberValidations() }
		c.has["string"] = func() bool { return cv.HasStringValidations() }
		c.has["array"] = func() bool { return cv.HasArrayValidations() }
		c.has["enum"] = func() bool { return cv.HasEnum() }
	}
	switch kind {
	case "schema":
		x := new(spec.Schema)
		c.ptr, c.set, c.get = x, x.SetValidations, func() spec.SchemaValidations { return x.Validations() }
		c.with = func(v spec.SchemaValidations) { x.WithValidations(v) }
	case "parameter":
		x := new(spec.Parameter)
		c.ptr, c.set, c.get = x, x.SetValidations, func() spec.SchemaValidations { return x.Validations() }
		c.with = func(v spec.SchemaValidations) { x.WithValidations(v.CommonValidations) }
		common(&x.CommonValidations)
	case "header":
		x := new(spec.Header)
		c.ptr, c.set, c.get = x, x.SetValidations, func() spec.SchemaValidations { return x.Validations() }
		c.with = func(v spec.SchemaValidations) { x.WithValidations(v.CommonValidations) }
		common(&x.CommonValidations)
	case "items":
		x := new(spec.Items)
		c.ptr, c.set, c.get = x, x.SetValidations, func() spec.SchemaValidations { return x.Validations() }
		c.with = func(v spec.SchemaValidations) { x.WithValidations(v.CommonValidations) }
		common(&x.CommonValidations)
	case "common":
		x := new(spec.CommonValidations)
		c.ptr, c.set, c.get = x, x.SetValidations, func() spec.SchemaValidations { return x.Validations() }
		common(x)
	case "schemaValidations":
		x := new(spec.SchemaValidations)
		c.ptr, c.set, c.get = x, x.SetValidations, func() spec.SchemaValidations { return x.Validations() }
		common(&x.CommonValidations)
		c.clear["object"] = x.ClearObjectValidations
		c.has["object"] = func() bool { return x.HasObjectValidations() }
	default:
		return nil, fmt.Errorf("unknown carrier %q", kind)
	}
	if err := json.Unmarshal(base, c.ptr); err != nil {
		return nil, err
	}
	return c, nil
}

func (c *carrierOps) json() any {
	var v any
	_ = json.Unmarshal(mustJSON(c.ptr), &v)
	return v
}

// stripValidations removes the validation keywords of the carrier from a JSON object.
func stripValidations(v any, simple bool) any {
	m, ok := v.(map[string]any)
	if !ok {
		return v
	}
	out := map[string]any{}
	for k, e := range m {
		out[k] = e
	}
	for _, k := range c20All {
		if simple && (k == "maxProperties" || k == "minProperties" || k == "patternProperties") {
			continue
		}
		delete(out, k)
	}
	return out
}

func restrict(vs valSet, simple bool) valSet {
	out := valSet{}
	for k, v := range vs {
		if simple && (k == "maxProperties" || k == "minProperties" || k == "patternProperties") {
			continue
		}
		out[k] = v
	}
	return out
}

func cbValue(v interface{}) any {
	rv := reflect.ValueOf(v)
	if rv.Kind() == reflect.Ptr && !rv.IsNil() {
		v = rv.Elem().Interface()
	}
	var out any
	_ = json.Unmarshal(mustJSON(v), &out)
	return out
}

func oracleC20(c c20Case) *vstat.Failure {
	f := &vstat.Failure{}
	guard(f, "validations", func() {
		car, err := newCarrier(c.Carrier, []byte(c.Base))
		if err != nil {
			f.Add("HARNESS", "", "%v", err)
			return
		}
		simple := isSimple(c.Carrier)
		other0 := stripValidations(car.json(), simple)
		state := fromValidations(car.get()) // the model starts from what is readable
		// round trip of the accessors leaves the object unchanged
		before := car.json()
		snapshot := reflect.New(reflect.TypeOf(car.ptr).Elem())
		snapshot.Elem().Set(reflect.ValueOf(car.ptr).Elem())
		car.set(car.get())
		if d := model.Diff(before, car.json()); len(d) > 0 {
			f.Add("ROUNDTRIP", d[0].Path, "SetValidations(Validations()) changed the object: %s", d[0].String())
		}
		if !reflect.DeepEqual(snapshot.Elem().Interface(), reflect.ValueOf(car.ptr).Elem().Interface()) {
			f.Add("ROUNDTRIP", "", "SetValidations(Validations()) changed the value (reflect.DeepEqual)")
		}
		for i, op := range c.Ops {
			where := fmt.Sprintf("op %d (%s)", i, op.Op)
			switch op.Op {
			case "set", "with":
				if op.Op == "with" && car.with == nil {
					continue
				}
				v := toValidations(op.Set)
				if op.Op == "set" {
					car.set(v)
				} else {
					car.with(v)
				}
				state = restrict(fromValidations(v), simple)
			case "get":
			case "clear:number", "clear:string", "clear:array", "clear:object":
				fam := op.Op[6:]
				clr := car.clear[fam]
				if clr == nil {
					continue
				}
				want := map[string]any{}
				for _, k := range c20Family[fam] {
					if v, ok := state[k]; ok {
						want[k] = v
						delete(state, k)
					}
				}
				got := make([]map[string][]any, op.NCB)
				cbs := make([]func(string, interface{}), op.NCB)
				for j := range cbs {
					j := j
					got[j] = map[string][]any{}
					cbs[j] = func(k string, v interface{}) { got[j][k] = append(got[j][k], cbValue(v)) }
				}
				clr(cbs...)
				for j := range got {
					for k, w := range want {
						switch vals := got[j][k]; {
						case len(vals) == 0:
							f.Add("CALLBACK", where, "callback %d was not told about cleared %s (previous value %s)", j, k, model.JS(w))
						case len(vals) > 1:
							f.Add("CALLBACK", where, "callback %d was told %d times about %s", j, len(vals), k)
						case !model.JSONEq(vals[0], w):
							f.Add("CALLBACK", where, "callback %d got %s for %s, previous value was %s", j, model.JS(vals[0]), k, model.JS(w))
						}
					}
					for k := range got[j] {
						if _, ok := want[k]; !ok {
							f.Add("CALLBACK", where, "callback %d was told about %s, which was not set or not of family %s", j, k, fam)
						}
					}
				}
				if h := car.has[fam]; h != nil && h() {
					f.Add("HAS", where, "Has%sValidations is still true after the clear", fam)
				}
			}
			// invariant after every step: what is readable is exactly the model's state
			got := fromValidations(car.get())
			want := state
			if d := model.Diff(map[string]any(want), map[string]any(got)); len(d) > 0 {
				f.Add("STATE", where, "validations readable back differ from what was written/cleared: %s", d[0].String())
				return
			}
			// has-queries agree with the model
			for fam, h := range car.has {
				wantHas := false
				if fam == "enum" {
					if e, ok := state["enum"].([]any); ok && len(e) > 0 {
						wantHas = true
					}
				} else {
					for _, k := range c20Family[fam] {
						if _, ok := state[k]; ok && k != "exclusiveMaximum" && k != "exclusiveMinimum" {
							wantHas = true
						}
					}
				}
				if h() != wantHas {
					f.Add("HAS", where, "Has(%s) = %v, model says %v (state %s)", fam, h(), wantHas, model.JS(map[string]any(state)))
				}
			}
			// the JSON form agrees as well (validation keywords as members)
			j, _ := car.json().(map[string]any)
			for _, k := range c20All {
				if simple && (k == "maxProperties" || k == "minProperties" || k == "patternProperties") {
					continue
				}
				w, inState := state[k]
				g, inJSON := j[k]
				if k == "enum" && inState {
					if e, ok := w.([]any); ok && len(e) == 0 {
						inState = false // an empty enum is not emitted
					}
				}
				if k == "patternProperties" && inState {
					if e, ok := w.(map[string]any); ok && len(e) == 0 {
						inState = false
					}
				}
				if inState != inJSON || (inState && !model.JSONEq(w, g)) {
					f.Add("JSON", where, "member %s of the encoded object: present=%v (%s), model: present=%v (%s)", k, inJSON, model.JS(g), inState, model.JS(w))
				}
			}
			// every other field untouched
			if d := model.Diff(other0, stripValidations(car.json(), simple)); len(d) > 0 {
				f.Add("OTHER-FIELD", where, "a field that is not a validation changed: %s", d[0].String())
				return
			}
		}
	})
	return f
}

// ---- generation -----------------------------------------------------------

func c20Value(t *rapid.T, k string) any {
	switch k {
	case "maximum", "minimum", "multipleOf":
		return []float64{0, 0, 1, -1.5, 10, 0.25}[gen.Uniform(t, "num", 6)]
	case "maxLength", "minLength", "maxItems", "minItems", "maxProperties", "minProperties":
		return []float64{0, 0, 1, 3, 255}[gen.Uniform(t, "nat", 5)]
	case "exclusiveMaximum", "exclusiveMinimum", "uniqueItems":
		return true
	case "pattern":
		return []string{"^a", ".*", "\\d+"}[gen.Uniform(t, "pat", 3)]
	case "enum":
		return [][]any{{"a"}, {0.0, nil}, {}, {"x", map[string]any{"k": []any{}}}}[gen.Uniform(t, "enum", 4)]
	case "patternProperties":
		return []map[string]any{{"^a": map[string]any{"type": "string"}}, {}, {"b$": map[string]any{"minimum": 0.0}, "c": map[string]any{}}}[gen.Uniform(t, "pp", 3)]
	}
	panic(k)
}

func genValSet(t *rapid.T) valSet {
	vs := valSet{}
	for _, k := range c20All {
		if rapid.Bool().Draw(t, "has:"+k) {
			vs[k] = c20Value(t, k)
		}
	}
	return vs
}

var c20Carriers = []string{"schema", "parameter", "header", "items", "common", "schemaValidations"}

func c20Base(t *rapid.T, carrier string) string {
	switch carrier {
	case "common", "schemaValidations":
		return string(mustJSON(genValSet(t)))
	}
	v := gen.NewV(t, gen.VocabOpts{Hostile: false, OptPct: 45, MaxDepth: 2, Budget: 25})
	return string(mustJSON(v.Instance(carrier)))
}

func genC20(t *rapid.T) c20Case {
	c := c20Case{Carrier: c20Carriers[gen.Uniform(t, "carrier", len(c20Carriers))]}
	c.Base = c20Base(t, c.Carrier)
	n := 1 + gen.Uniform(t, "nops", 6)
	for i := 0; i < n; i++ {
		switch gen.Uniform(t, "op", 8) {
		case 0, 1:
			c.Ops = append(c.Ops, c20Op{Op: "set", Set: genValSet(t)})
		case 2:
			c.Ops = append(c.Ops, c20Op{Op: "with", Set: genValSet(t)})
		case 3:
			c.Ops = append(c.Ops, c20Op{Op: "get"})
		default:
			fam := []string{"number", "string", "array", "object"}[gen.Uniform(t, "family", 4)]
			c.Ops = append(c.Ops, c20Op{Op: "clear:" + fam, NCB: gen.Uniform(t, "ncb", 4)})
		}
	}
	return c
}

// c20Commute: the clear operations commute.
func c20Commute(f *vstat.Failure, carrier, base string, vs valSet) {
	fams := []string{"number", "string", "array", "object"}
	var first any
	perms := [][]int{{0, 1, 2, 3}, {3, 2, 1, 0}, {1, 3, 0, 2}, {2, 0, 3, 1}}
	for pi, perm := range perms {
		car, err := newCarrier(carrier, []byte(base))
		if err != nil {
			f.Add("HARNESS", "", "%v", err)
			return
		}
		car.set(toValidations(vs))
		for _, i := range perm {
			if clr := car.clear[fams[i]]; clr != nil {
				clr()
			}
		}
		if pi == 0 {
			first = car.json()
		} else if d := model.Diff(first, car.json()); len(d) > 0 {
			f.Add("COMMUTE", carrier, "clearing in order %v gives another object than in order %v: %s", perm, perms[0], d[0].String())
		}
	}
}

func TestC20(t *testing.T) {
	r := rec("C20")
	// exhaustive sweep: every subset of the 15 validation keywords present, on every carrier
	shard, nshards := shardInfo()
	step := 1
	if tier() == "quick" {
		step = 8 // quick: every 8th subset (with a shard-dependent phase); thorough: all 2^15
	}
	fixed := valSet{"maximum": 0.0, "exclusiveMaximum": true, "minimum": -1.5, "exclusiveMinimum": true, "multipleOf": 0.0, "maxLength": 0.0, "minLength": 3.0, "pattern": "^a",
		"maxItems": 0.0, "minItems": 1.0, "uniqueItems": true, "maxProperties": 0.0, "minProperties": 2.0, "patternProperties": map[string]any{"^a": map[string]any{"type": "string"}}, "enum": []any{"a", 0.0}}
	keys := append([]string{}, c20All...)
	sort.Strings(keys)
	bases := map[string]string{"schema": `{"title":"T","description":"D","required":["r"],"readOnly":true,"properties":{"p":{"type":"string"}},"x-ext":1,"unknown":[1]}`,
		"parameter": `{"name":"n","in":"query","type":"array","items":{"type":"string","maximum":1},"collectionFormat":"csv","default":[1],"required":true,"x-ext":1}`,
		"header":    `{"type":"integer","format":"int32","description":"d","default":0,"x-ext":{"a":1}}`,
		"items":     `{"type":"array","items":{"type":"integer","minimum":0},"collectionFormat":"pipes","x-ext":1}`,
		"common":    `{}`, "schemaValidations": `{}`}
	n := 0
	for mask := (shard * 3) % step; mask < 1<<len(keys); mask += step {
		if (mask/step)%nshards != shard {
			continue
		}
		vs := valSet{}
		for i, k := range keys {
			if mask&(1<<i) != 0 {
				vs[k] = fixed[k]
			}
		}
		for _, carrier := range c20Carriers {
			c := c20Case{Carrier: carrier, Base: bases[carrier], Ops: []c20Op{{Op: "set", Set: vs}, {Op: "get"}, {Op: "clear:string", NCB: 2}, {Op: "clear:number", NCB: 1}, {Op: "with", Set: vs}, {Op: "clear:object", NCB: 3}, {Op: "clear:array", NCB: 0}}}
			f := oracleC20(c)
			c20Commute(f, carrier, bases[carrier], vs)
			n++
			if mask != 0 && mask != 1<<len(keys)-1 {
				r.NonTrivial(mustJSON(c), nil)
			}
			verdict(t, "C20", "sweep", c, f)
		}
	}
	r.EvalN(n)
	r.Count("sweep cases (subsets x carriers)", n)
	r.SetExhaustive(step == 1)
	rapid.Check(t, func(t *rapid.T) {
		c := genC20(t)
		f := oracleC20(c)
		if gen.Pct(t, "commute", 30) {
			c20Commute(f, c.Carrier, c.Base, genValSet(t))
		}
		r.Eval()
		r.Label("carrier=" + c.Carrier)
		nt := false
		for _, op := range c.Ops {
			r.Label("op=" + op.Op)
			if op.Set != nil && len(op.Set) > 0 && len(op.Set) < len(c20All) {
				nt = true
			}
			for _, v := range op.Set {
				if fv, ok := v.(float64); ok && fv == 0 {
					nt = true
				}
			}
		}
		if nt {
			r.NonTrivial(mustJSON(c), c)
		}
		verdict(t, "C20", "random", c, f)
	})
}

func TestReplayC20(t *testing.T) {
	runReplays(t, "C20", func(variant string, raw json.RawMessage) *vstat.Failure {
		var c c20Case
		if err := json.Unmarshal(raw, &c); err != nil {
			return &vstat.Failure{Atoms: []vstat.Atom{{Kind: "HARNESS", Detail: err.Error()}}}
		}
		return oracleC20(c)
	})
}
