package props

// C03 — Expansion leaves only resolvable cycle cut-points; acyclic specs end $ref-free.

import (
	"bytes"
	"encoding/json"
	"fmt"
	"net/url"
	"strings"
	"testing"

	"github.com/go-openapi/spec"
	"pgregory.net/rapid"

	"verif/gen"
	"verif/model"
	"verif/vstat"
)

// checkCutPoints walks input and output in parallel from one root element and
// checks every `$ref` that remains in the output.
func checkCutPoints(f *vstat.Failure, gin, gout *model.Graph, root string, el model.Elem, abs bool, spelling bool) (remaining int) {
	rootURL, _ := url.Parse(root)
	rootDir := root[:strings.LastIndex(root, "/")+1]
	var walk func(pin, pout model.Pos, k model.Kind, depth int)
	walk = func(pin, pout model.Pos, k model.Kind, depth int) {
		if depth > 200 || len(f.Atoms) > 0 {
			return
		}
		cin, nin, err := gin.Deref(pin)
		if err != nil {
			return // unfounded: exempt
		}
		nout, err := gout.Get(pout)
		if err != nil {
			f.Add("LOST", pout.Ptr, "output has nothing at %s (input %s): %v", pout.Ptr, cin, err)
			return
		}
		ref, isRef := model.RefOf(nout)
		if !isRef {
			for _, ch := range model.Children(k, nin) {
				walk(cin.Child(ch.Toks...), pout.Child(ch.Toks...), ch.K, depth+1)
			}
			return
		}
		remaining++
		if k != model.KSchema {
			f.Add("REF-REMAINS", pout.Ptr, "a $ref (%q) remains at the %s position %s although the element is well-founded", ref, k, pout.Ptr)
			return
		}
		// (a) resolves from the root document's location
		tp, healthy := gout.Hop(pout, ref)
		if !healthy {
			f.Add("UNRESOLVABLE", pout.Ptr, "remaining $ref %q at %s does not resolve from %s (=> %s)", ref, pout.Ptr, root, tp)
			return
		}
		// (b) designates a node on a reference cycle of the input
		var onCycle bool
		if tp.Doc != root {
			onCycle = gin.OnCycle(tp, model.KSchema)
			if !onCycle {
				if c, _, err := gin.Deref(tp); err == nil {
					onCycle = gin.OnCycle(c, model.KSchema)
				}
			}
		} else if c, _, err := gin.GetThrough(tp); err == nil {
			onCycle = gin.OnCycle(c, model.KSchema)
			if !onCycle {
				// the pointer itself may designate a holder of the input that lies on the cycle
				onCycle = gin.OnCycle(tp, model.KSchema)
			}
		}
		if !onCycle {
			f.Add("NOT-A-CUT-POINT", pout.Ptr, "remaining $ref %q at %s designates %s, which lies on no reference cycle of the input", ref, pout.Ptr, tp)
			return
		}
		// (c) spelling
		if !spelling {
			return
		}
		r, err := spec.NewRef(ref)
		if err != nil {
			f.Add("UNRESOLVABLE", pout.Ptr, "remaining $ref %q does not parse: %v", ref, err)
			return
		}
		if abs {
			if !r.IsCanonical() {
				f.Add("SPELLING", pout.Ptr, "AbsoluteCircularRef: remaining $ref %q at %s is not an absolute canonical URL", ref, pout.Ptr)
			}
			return
		}
		if tp.Doc == root {
			if !strings.HasPrefix(ref, "#") {
				f.Add("SPELLING", pout.Ptr, "remaining $ref %q at %s points into the root document but is not fragment-only", ref, pout.Ptr)
			}
		} else if tu, _ := url.Parse(tp.Doc); tu != nil && tu.Scheme == rootURL.Scheme && tu.Host == rootURL.Host && strings.HasPrefix(tp.Doc, rootDir) {
			if u, _ := url.Parse(ref); u == nil || u.Scheme != "" || strings.HasPrefix(u.Path, "/") {
				f.Add("SPELLING", pout.Ptr, "remaining $ref %q at %s is not written relative to the root document %s", ref, pout.Ptr, root)
			}
		}
	}
	walk(el.P, el.P, el.K, 0)
	return remaining
}

type c03Case = c02Case

func oracleC03(c c03Case) (*vstat.Failure, bool) {
	f := &vstat.Failure{}
	gin := c.Graph.Graph()
	opts := spec.ExpandOptions{AbsoluteCircularRef: c.Abs}
	run := runExpandSpec(c.Graph, nil, opts)
	if run.Panic != "" {
		f.Add("PANIC", "ExpandSpec", "%s", run.Panic)
		return f, false
	}
	if run.Err != nil {
		f.Add("ERROR", "ExpandSpec", "expansion of a graph whose $refs all resolve failed: %v", run.Err)
		return f, false
	}
	gout := gin.With(c.Graph.Root, run.Out)
	elems := rootElems(gin, c.Graph.Root)
	acyclic := gin.Acyclic(elems)
	remaining := 0
	for _, el := range elems {
		if !gin.WellFounded(el.P) {
			continue
		}
		remaining += checkCutPoints(f, gin, gout, c.Graph.Root, el, c.Abs, true)
		if len(f.Atoms) > 0 {
			return f, acyclic
		}
	}
	if acyclic {
		for _, el := range rootElems(gout, c.Graph.Root) {
			for _, h := range gout.RefsBelow(el.P, el.K) {
				f.Add("REF-REMAINS", h.P.Ptr, "acyclic input, yet $ref %q remains at %s", h.Ref, h.P.Ptr)
				return f, acyclic
			}
		}
		// deterministic function of the input
		for i := 0; i < 4; i++ {
			again := runExpandSpec(c.Graph, nil, opts)
			if again.Err != nil || again.Panic != "" {
				f.Add("NONDETERMINISTIC", "ExpandSpec", "repeat %d of an acyclic expansion failed: %v %s", i, again.Err, again.Panic)
				return f, acyclic
			}
			if !bytes.Equal(again.OutBytes, run.OutBytes) {
				f.Add("NONDETERMINISTIC", "ExpandSpec", "acyclic input expanded to different outputs: %s vs %s", run.OutBytes, again.OutBytes)
				return f, acyclic
			}
		}
	}
	return f, acyclic
}

// c03Exhaustive runs the cut-point and meaning oracles over the whole family of small graphs without ids
// (every digraph on <=N nodes x placement x entry kind x same/other document), this shard's share of it.
func c03Exhaustive(t *testing.T, r *vstat.Recorder) {
	maxN := 2
	if tier() == "thorough" {
		maxN = 3
	}
	shard, nshards := shardInfo()
	n := 0
	gen.EnumerateSmall(maxN, false, func(idx int, s gen.SmallGraph) {
		if idx%nshards != shard {
			return
		}
		c := c03Case{Graph: s.Case(), Abs: idx%2 == 1}
		f, _ := oracleC03(c)
		if f.Empty() {
			oracleMeaning(f, c.Graph, spec.ExpandOptions{AbsoluteCircularRef: c.Abs}, 1)
		}
		n++
		cyclic := false
		for i := 0; i < s.N; i++ {
			cyclic = cyclic || s.OnCycle(i)
		}
		if cyclic || s.OtherDoc {
			r.NonTrivial(mustJSON(s), nil)
		}
		if n%400 == 1 {
			r.Sample(s)
		}
		verdict(t, "C03", "small", c, f)
	})
	r.EvalN(n)
	r.Count("exhaustive small graphs (this run, all shards)", n)
	r.Label(fmt.Sprintf("exhaustive: digraphs on <=%d nodes", maxN))
	r.SetExhaustive(true)
}

func TestC03(t *testing.T) {
	r := rec("C03")
	c03Exhaustive(t, r)
	o := gen.DefaultGraphOpts()
	o.DagPct = 50
	o.Payloads = true
	rapid.Check(t, func(t *rapid.T) {
		c := c03Case{Graph: gen.Graph(t, o), Abs: rapid.Bool().Draw(t, "abs")}
		cl := gen.Classify(c.Graph)
		r.Eval()
		for _, l := range cl.Labels() {
			r.Label(l)
		}
		r.LabelIf(c.Abs, "AbsoluteCircularRef")
		vstat.InFlight("C03", "expandspec", c)
		f, acyclic := oracleC03(c)
		vstat.ClearInFlight("C03")
		r.LabelIf(acyclic, "acyclic")
		if cl.Cyclic || (acyclic && cl.NDocs >= 2) {
			r.NonTrivial(c.Graph.Canon(), c)
		}
		verdict(t, "C03", "expandspec", c, f)
	})
}

func TestReplayC03(t *testing.T) {
	runReplays(t, "C03", func(variant string, raw json.RawMessage) *vstat.Failure {
		var c c03Case
		if err := json.Unmarshal(raw, &c); err != nil {
			return &vstat.Failure{Atoms: []vstat.Atom{{Kind: "HARNESS", Detail: err.Error()}}}
		}
		f, _ := oracleC03(c)
		return f
	})
}
