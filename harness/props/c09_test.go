package props

// C09 — Skip-schemas mode expands all but schemas and keeps their $refs valid.

import (
	"bytes"
	"encoding/json"
	"strings"
	"testing"

	"github.com/go-openapi/spec"
	"pgregory.net/rapid"

	"verif/gen"
	"verif/model"
	"verif/vstat"
)

type c09Case struct {
	Graph gen.GraphCase `json:"graph"`
}

// skipWalk: parallel walk of input and skip-schemas output below a
// parameter/response/path item.
func skipWalk(f *vstat.Failure, gin, gout *model.Graph, root string, pin, pout model.Pos, k model.Kind, rewritten *int, depth int) {
	if len(f.Atoms) > 0 || depth > 100 {
		return
	}
	nin, err := gin.Get(pin)
	if err != nil {
		return
	}
	nout, err := gout.Get(pout)
	if err != nil {
		f.Add("LOST", pout.Ptr, "output has nothing at %s (input %s)", pout.Ptr, pin)
		return
	}
	rin, inIsRef := model.RefOf(nin)
	rout, outIsRef := model.RefOf(nout)
	if k == model.KSchema {
		if inIsRef != outIsRef {
			f.Add("SCHEMA-REF-NOT-KEPT", pout.Ptr, "schema at %s (input %s): input is $ref=%v (%q), output is $ref=%v (%s)", pout.Ptr, pin, inIsRef, rin, outIsRef, model.JS(nout))
			return
		}
		if inIsRef {
			tin, err1 := model.Resolve(pin.Doc, rin)
			tout, err2 := model.Resolve(root, rout)
			if err1 != nil || err2 != nil {
				f.Add("UNRESOLVABLE", pout.Ptr, "%v %v", err1, err2)
				return
			}
			if tin != tout {
				f.Add("REBASED-ELSEWHERE", pout.Ptr, "schema $ref at %s: input %q in %s designates %s, output %q read from the root designates %s", pout.Ptr, rin, pin.Doc, tin, rout, tout)
				return
			}
			if tin.Doc == root && !strings.HasPrefix(rout, "#") && rout != "" {
				f.Add("SPELLING", pout.Ptr, "schema $ref %q at %s points into the root document but is not fragment-only", rout, pout.Ptr)
				return
			}
			if pin.Doc != root && rin != rout {
				*rewritten++
			}
			return
		}
	} else {
		if outIsRef {
			f.Add("REF-REMAINS", pout.Ptr, "a %s $ref (%q) remains at %s after a skip-schemas expansion", k, rout, pout.Ptr)
			return
		}
		if inIsRef {
			cp, n, err := gin.Deref(pin)
			if err != nil {
				return // unfounded: exempt
			}
			pin, nin = cp, n
		}
	}
	for _, ch := range model.Children(k, nin) {
		skipWalk(f, gin, gout, root, pin.Child(ch.Toks...), pout.Child(ch.Toks...), ch.K, rewritten, depth+1)
	}
}

func oracleC09(c c09Case) (*vstat.Failure, int) {
	f := &vstat.Failure{}
	root := c.Graph.Root
	gin := c.Graph.Graph()
	run := runExpandSpec(c.Graph, nil, spec.ExpandOptions{SkipSchemas: true})
	if run.Panic != "" {
		f.Add("PANIC", "ExpandSpec(SkipSchemas)", "%s", run.Panic)
		return f, 0
	}
	if run.Err != nil {
		f.Add("ERROR", "ExpandSpec(SkipSchemas)", "expansion of a graph whose $refs all resolve failed: %v", run.Err)
		return f, 0
	}
	gout := gin.With(root, run.Out)
	// (1) definitions untouched
	// (compared with the decoded-and-re-encoded input: the codec canonicalises $ref strings, expansion must add nothing to that)
	var plain spec.Swagger
	_ = json.Unmarshal([]byte(c.Graph.Docs[root]), &plain)
	var plainAny any
	_ = json.Unmarshal(mustJSON(&plain), &plainAny)
	din, _ := model.GetIn(plainAny, "/definitions")
	dout, _ := gout.Get(model.Pos{Doc: root}.Child("definitions"))
	if !model.JSONEq(din, dout) {
		for _, a := range model.Diff(din, dout) {
			f.Add("DEFINITIONS-TOUCHED", "/definitions"+a.Path, "%s", a.String())
			break
		}
		return f, 0
	}
	rewritten := 0
	elems := rootElems(gin, root)
	memo := model.BisimMemo{}
	for _, el := range elems {
		if !gin.WellFounded(el.P) {
			continue
		}
		if el.K != model.KSchema {
			// (2) + (3)
			skipWalk(f, gin, gout, root, el.P, el.P, el.K, &rewritten, 0)
			if len(f.Atoms) > 0 {
				return f, rewritten
			}
		}
		// (4) same meaning
		if err := model.BisimMemoized(gin, gout, el.P, el.P, el.K, memo); err != nil {
			f.Add("MEANING", el.P.Ptr, "%s %s does not denote the same tree after a skip-schemas expansion: %v", el.K, el.P.Ptr, err)
			return f, rewritten
		}
	}
	// (5) full expansion afterwards == direct full expansion
	two := runExpandSpecOn(run.OutBytes, c.Graph, nil, spec.ExpandOptions{})
	direct := runExpandSpec(c.Graph, nil, spec.ExpandOptions{})
	if two.Panic != "" || direct.Panic != "" {
		f.Add("PANIC", "ExpandSpec", "two-step: %s direct: %s", two.Panic, direct.Panic)
		return f, rewritten
	}
	if (two.Err == nil) != (direct.Err == nil) {
		f.Add("TWO-STEP-DIFFERS", "ExpandSpec", "full expansion of the skip-schemas result: err=%v ; direct full expansion: err=%v", two.Err, direct.Err)
		return f, rewritten
	}
	if two.Err != nil {
		f.Add("ERROR", "ExpandSpec", "full expansions fail on a graph whose $refs all resolve: %v", two.Err)
		return f, rewritten
	}
	g2 := gin.With(root, two.Out)
	memo2 := model.BisimMemo{}
	for _, el := range elems {
		if !gin.WellFounded(el.P) {
			continue
		}
		if err := model.BisimMemoized(gin, g2, el.P, el.P, el.K, memo2); err != nil {
			f.Add("MEANING", el.P.Ptr, "%s %s: full expansion of the skip-schemas result does not denote the input's tree: %v", el.K, el.P.Ptr, err)
			return f, rewritten
		}
	}
	if gin.Acyclic(elems) && !bytes.Equal(two.OutBytes, direct.OutBytes) {
		f.Add("TWO-STEP-DIFFERS", "ExpandSpec", "acyclic graph: skip-schemas + full expansion gives %s, direct full expansion gives %s", two.OutBytes, direct.OutBytes)
	}
	return f, rewritten
}

func TestC09(t *testing.T) {
	r := rec("C09")
	o := gen.DefaultGraphOpts()
	rapid.Check(t, func(t *rapid.T) {
		c := c09Case{Graph: gen.Graph(t, o)}
		cl := gen.Classify(c.Graph)
		vstat.InFlight("C09", "skipschemas", c)
		f, rewritten := oracleC09(c)
		vstat.ClearInFlight("C09")
		r.Eval()
		for _, l := range cl.Labels() {
			r.Label(l)
		}
		r.LabelIf(rewritten > 0, "imported schema $ref rewritten")
		if rewritten > 0 {
			r.NonTrivial(c.Graph.Canon(), c)
		}
		verdict(t, "C09", "skipschemas", c, f)
	})
}

func TestReplayC09(t *testing.T) {
	runReplays(t, "C09", func(variant string, raw json.RawMessage) *vstat.Failure {
		var c c09Case
		if err := json.Unmarshal(raw, &c); err != nil {
			return &vstat.Failure{Atoms: []vstat.Atom{{Kind: "HARNESS", Detail: err.Error()}}}
		}
		f, _ := oracleC09(c)
		return f
	})
}
