package props

// Shared plumbing for the single-element expanders (C10, C18, C16).

import (
	"encoding/json"
	"fmt"
	"os"
	"strconv"
	"sync"

	"github.com/go-openapi/spec"

	"verif/gen"
	"verif/model"
	"verif/vstat"
)

// logCache is a harness-implemented ResolutionCache that records its traffic.
type logCache struct {
	mu   sync.Mutex
	m    map[string]interface{}
	sets []string
}

func newLogCache() *logCache { return &logCache{m: map[string]interface{}{}} }

func (c *logCache) Get(k string) (interface{}, bool) {
	c.mu.Lock()
	defer c.mu.Unlock()
	v, ok := c.m[k]
	return v, ok
}

func (c *logCache) Set(k string, v interface{}) {
	c.mu.Lock()
	defer c.mu.Unlock()
	c.m[k] = v
	c.sets = append(c.sets, k)
}

type elemCall struct {
	Entry string `json:"entry"`          // ExpandSchema, ExpandSchemaWithBasePath, ExpandParameter, ExpandParameterWithRoot, ExpandResponse, ExpandResponseWithRoot
	Root  string `json:"root,omitempty"` // typed | generic (root-based entry points)
	Elem  string `json:"elem"`           // pointer of the element in the root document
}

type elemRun struct {
	Err       error
	Panic     string
	OutBytes  []byte
	Out       any
	Loads     []string
	RootDiff  string // non-empty: the root document passed as context changed
	OptsDiff  string // non-empty: the caller's options changed
	NotUsable string // the entry point does not apply to this element
}

func kindOfEntry(entry string) model.Kind {
	switch entry {
	case "ExpandParameter", "ExpandParameterWithRoot":
		return model.KParam
	case "ExpandResponse", "ExpandResponseWithRoot":
		return model.KResponse
	}
	return model.KSchema
}

// runElem expands one element of the root of c through one entry point. The
// element is decoded on its own (it shares no storage with the root).
func runElem(c gen.GraphCase, call elemCall, cache spec.ResolutionCache, refused map[string]bool) (res elemRun) {
	g := c.Graph()
	node, err := g.Get(model.Pos{Doc: c.Root, Ptr: call.Elem})
	if err != nil {
		res.NotUsable = err.Error()
		return
	}
	nb := mustJSON(node)
	l := newLoader(c.Docs, refused)
	var root any
	var typed *spec.Swagger
	var generic any
	switch call.Root {
	case "typed":
		typed = new(spec.Swagger)
		if err := json.Unmarshal([]byte(c.Docs[c.Root]), typed); err != nil {
			res.NotUsable = err.Error()
			return
		}
		root = typed
	case "generic":
		_ = json.Unmarshal([]byte(c.Docs[c.Root]), &generic)
		root = generic
	case "preloaded":
		// nil root, the root document is found in the supplied cache under the pseudo location of an in-memory root
		typed = new(spec.Swagger)
		if err := json.Unmarshal([]byte(c.Docs[c.Root]), typed); err != nil {
			res.NotUsable = err.Error()
			return
		}
		if cache == nil {
			cache = newLogCache()
		}
		wd, _ := os.Getwd()
		cache.Set("file://"+wd+"/.root", typed)
	}
	var rootBefore []byte
	if root != nil {
		rootBefore = mustJSON(root)
	}
	opts := &spec.ExpandOptions{RelativeBase: c.Root, PathLoader: l.load}
	if call.Entry == "ExpandSchemaWithBasePath" && call.Root == "preloaded" {
		opts.RelativeBase = "" // no base location: the root is the one the cache holds under the pseudo location
	}
	optsBefore := *opts
	old := spec.PathLoader
	spec.PathLoader = l.load
	defer func() { spec.PathLoader = old }()
	var out any
	func() {
		defer func() {
			if r := recover(); r != nil {
				res.Panic = fmt.Sprint(r)
			}
		}()
		switch call.Entry {
		case "ExpandSchema", "ExpandSchemaWithBasePath":
			var s spec.Schema
			if err := json.Unmarshal(nb, &s); err != nil {
				res.NotUsable = err.Error()
				return
			}
			if call.Entry == "ExpandSchema" {
				res.Err = spec.ExpandSchema(&s, root, cache)
			} else {
				res.Err = spec.ExpandSchemaWithBasePath(&s, cache, opts)
			}
			out = &s
		case "ExpandParameter", "ExpandParameterWithRoot":
			var p spec.Parameter
			if err := json.Unmarshal(nb, &p); err != nil {
				res.NotUsable = err.Error()
				return
			}
			if call.Entry == "ExpandParameter" {
				res.Err = spec.ExpandParameter(&p, c.Root)
			} else {
				res.Err = spec.ExpandParameterWithRoot(&p, root, cache)
			}
			out = &p
		case "ExpandResponse", "ExpandResponseWithRoot":
			var r spec.Response
			if err := json.Unmarshal(nb, &r); err != nil {
				res.NotUsable = err.Error()
				return
			}
			if call.Entry == "ExpandResponse" {
				res.Err = spec.ExpandResponse(&r, c.Root)
			} else {
				res.Err = spec.ExpandResponseWithRoot(&r, root, cache)
			}
			out = &r
		default:
			res.NotUsable = "unknown entry " + call.Entry
		}
	}()
	res.Loads = l.requests()
	if res.Panic != "" || res.NotUsable != "" {
		return
	}
	if rootBefore != nil {
		if after := mustJSON(root); string(after) != string(rootBefore) {
			var a, b any
			_ = json.Unmarshal(rootBefore, &a)
			_ = json.Unmarshal(after, &b)
			res.RootDiff = "root changed"
			if d := model.Diff(a, b); len(d) > 0 {
				res.RootDiff = d[0].String()
			}
		}
	}
	if opts.RelativeBase != optsBefore.RelativeBase || opts.SkipSchemas != optsBefore.SkipSchemas || opts.ContinueOnError != optsBefore.ContinueOnError || opts.AbsoluteCircularRef != optsBefore.AbsoluteCircularRef {
		res.OptsDiff = fmt.Sprintf("%+v -> %+v", optsBefore.RelativeBase, opts.RelativeBase)
	}
	b, err := json.Marshal(out)
	if err != nil {
		res.Panic = "result does not encode: " + err.Error()
		return
	}
	res.OutBytes = b
	_ = json.Unmarshal(b, &res.Out)
	return
}

// setAt replaces the node at ptr in doc (decoded JSON).
func setAt(doc any, ptr string, val any) any {
	toks := (model.Pos{Ptr: ptr}).Tokens()
	if len(toks) == 0 {
		return val
	}
	cur := doc
	for i, t := range toks {
		last := i == len(toks)-1
		switch c := cur.(type) {
		case map[string]any:
			if last {
				c[t] = val
			} else {
				cur = c[t]
			}
		case []any:
			idx, _ := strconv.Atoi(t)
			if idx < 0 || idx >= len(c) {
				return doc
			}
			if last {
				c[idx] = val
			} else {
				cur = c[idx]
			}
		}
	}
	return doc
}

// spliced returns the graph in which the element at ptr of the root is replaced by out.
func spliced(gin *model.Graph, root, ptr string, out any) *model.Graph {
	rootCopy := model.Clone(gin.Docs[root])
	return gin.With(root, setAt(rootCopy, ptr, model.Clone(out)))
}

// checkElemMeaning: the expanded element, put back at its position, denotes
// the same tree as before (C02) and keeps only valid cut-points (C03).
func checkElemMeaning(f *vstat.Failure, gin *model.Graph, root string, call elemCall, out any, abs bool) {
	el := model.Elem{P: model.Pos{Doc: root, Ptr: call.Elem}, K: kindOfEntry(call.Entry)}
	if !gin.WellFounded(el.P) {
		return
	}
	gout := spliced(gin, root, call.Elem, out)
	if err := model.Bisim(gin, gout, el.P, el.P, el.K); err != nil {
		f.Add("MEANING", call.Elem, "%s(%s root) of %s does not denote the same tree as the element in its root: %v", call.Entry, call.Root, call.Elem, err)
		return
	}
	// the root-based entry points do not know the location of the root: the spelling rule (fragment-only into the root) only applies to the others
	checkCutPoints(f, gin, gout, root, el, abs, call.Root == "")
	if gin.Acyclic([]model.Elem{el}) {
		for _, h := range gout.RefsBelow(el.P, el.K) {
			f.Add("REF-REMAINS", h.P.Ptr, "%s of %s: acyclic element, yet $ref %q remains at %s", call.Entry, call.Elem, h.Ref, h.P.Ptr)
			return
		}
	}
}
