package props

import (
	"os"
	"regexp"
	"sort"
	"testing"

	"pgregory.net/rapid"

	"verif/gen"
)

var reIdx = regexp.MustCompile(`/\d+`)

// TestSurveyC15 aggregates the failing pointer classes over many documents (development aid, run with VERIF_SURVEY=1).
func TestSurveyC15(t *testing.T) {
	if os.Getenv("VERIF_SURVEY") == "" {
		t.Skip()
	}
	classes := map[string]int{}
	example := map[string]string{}
	g := rapid.Custom(func(t *rapid.T) codecCase {
		kind := c15Kinds[gen.Uniform(t, "kind", len(c15Kinds))]
		v := gen.NewV(t, gen.VocabOpts{Hostile: false, Refs: true, OptPct: 40, Budget: 60})
		return codecCase{Kind: kind, Doc: string(mustJSON(v.Instance(kind)))}
	})
	for seed := 1; seed <= 400; seed++ {
		c := g.Example(seed)
		f, _ := oracleC15(c)
		for _, a := range f.Atoms {
			toks := reIdx.ReplaceAllString(a.Path, "/N")
			// keep the last two tokens
			i := len(toks)
			for n := 0; n < 3 && i > 0; n++ {
				i--
				for i > 0 && toks[i] != '/' {
					i--
				}
			}
			key := a.Kind + " …" + toks[i:]
			classes[key]++
			if _, ok := example[key]; !ok {
				d := a.Detail
				if len(d) > 260 {
					d = d[:260]
				}
				example[key] = d
			}
		}
	}
	keys := make([]string, 0, len(classes))
	for k := range classes {
		keys = append(keys, k)
	}
	sort.Strings(keys)
	for _, k := range keys {
		t.Logf("%4d %s\n        %s", classes[k], k, example[k])
	}
}
