package props

// Worker subprocess: the test binary re-executes itself with VERIF_WORKER=1 and
// serves jobs (one JSON line in, one JSON line out) under a bounded stack, so
// that a stack overflow, a fatal runtime error or a hang of the code under test
// is an observable, attributable outcome of one job instead of the death of the
// whole check (C04, C07, C16).

import (
	"bufio"
	"bytes"
	"encoding/json"
	"fmt"
	"io"
	"os"
	"os/exec"
	"runtime/debug"
	"strconv"
	"sync"
	"time"
)

type wjob struct {
	Kind    string          `json:"kind"`
	Payload json.RawMessage `json:"payload"`
}

type wresult struct {
	Panic string          `json:"panic,omitempty"`
	Data  json.RawMessage `json:"data,omitempty"`
}

const workerMark = "\x01VERIF-ANSWER:"

// jobHandlers are registered by the property files (init functions).
var jobHandlers = map[string]func(json.RawMessage) (any, error){}

func workerMain() {
	mb, _ := strconv.Atoi(os.Getenv("VERIF_MAXSTACK_MB"))
	if mb <= 0 {
		mb = 32
	}
	debug.SetMaxStack(mb << 20)
	in := bufio.NewReaderSize(os.Stdin, 1<<20)
	out := bufio.NewWriter(os.Stdout)
	for {
		line, err := in.ReadBytes('\n')
		if len(line) > 0 {
			var j wjob
			var res wresult
			if e := json.Unmarshal(line, &j); e != nil {
				res.Panic = "harness: bad job: " + e.Error()
			} else if h, ok := jobHandlers[j.Kind]; !ok {
				res.Panic = "harness: unknown job kind " + j.Kind
			} else {
				func() {
					defer func() {
						if r := recover(); r != nil {
							st := string(debug.Stack())
							if len(st) > 2500 {
								st = st[:2500]
							}
							res.Panic = fmt.Sprintf("%v\n%s", r, st)
						}
					}()
					v, e := h(j.Payload)
					if e != nil {
						res.Panic = "harness: " + e.Error()
						return
					}
					res.Data, _ = json.Marshal(v)
				}()
			}
			b, _ := json.Marshal(res)
			out.WriteString(workerMark) // (the library logs warnings to stdout: answers are marked, the rest is skipped)
			out.Write(b)
			out.WriteByte('\n')
			out.Flush()
		}
		if err != nil {
			return
		}
	}
}

type tailBuffer struct {
	mu  sync.Mutex
	buf []byte
}

func (t *tailBuffer) Write(p []byte) (int, error) {
	t.mu.Lock()
	defer t.mu.Unlock()
	t.buf = append(t.buf, p...)
	if len(t.buf) > 16384 {
		// keep head (the fatal error line comes first) and tail
		t.buf = append(t.buf[:6000:6000], t.buf[len(t.buf)-6000:]...)
	}
	return len(p), nil
}

func (t *tailBuffer) String() string {
	t.mu.Lock()
	defer t.mu.Unlock()
	return string(t.buf)
}

type worker struct {
	cmd    *exec.Cmd
	in     io.WriteCloser
	out    *bufio.Reader
	stderr *tailBuffer
	lines  chan []byte
}

var (
	workersMu sync.Mutex
	workers   = map[int]*worker{}
)

func startWorker(stackMB int) (*worker, error) {
	cmd := exec.Command(os.Args[0], "-test.run", "^$")
	cmd.Env = append(os.Environ(), "VERIF_WORKER=1", "VERIF_MAXSTACK_MB="+strconv.Itoa(stackMB))
	in, err := cmd.StdinPipe()
	if err != nil {
		return nil, err
	}
	outp, err := cmd.StdoutPipe()
	if err != nil {
		return nil, err
	}
	w := &worker{cmd: cmd, in: in, out: bufio.NewReaderSize(outp, 1<<20), stderr: &tailBuffer{}, lines: make(chan []byte, 1)}
	cmd.Stderr = w.stderr
	if err := cmd.Start(); err != nil {
		return nil, err
	}
	go func() {
		for {
			line, err := w.out.ReadBytes('\n')
			if i := bytes.LastIndex(line, []byte(workerMark)); i >= 0 && line[len(line)-1] == '\n' {
				w.lines <- line[i+len(workerMark):]
			}
			if err != nil {
				close(w.lines)
				return
			}
		}
	}()
	return w, nil
}

func (w *worker) kill() {
	_ = w.cmd.Process.Kill()
	_, _ = w.cmd.Process.Wait()
}

type callOutcome struct {
	Res    wresult
	Died   bool   // the worker process died while running the job
	Hung   bool   // no answer within the watchdog
	Stderr string // what the dying worker printed (fatal error: stack overflow ...)
}

// callWorker runs one job in the worker with the given stack bound.
func callWorker(stackMB int, kind string, payload any, timeout time.Duration) callOutcome {
	workersMu.Lock()
	defer workersMu.Unlock()
	w := workers[stackMB]
	if w == nil {
		var err error
		w, err = startWorker(stackMB)
		if err != nil {
			panic("cannot start worker: " + err.Error())
		}
		workers[stackMB] = w
	}
	pb, _ := json.Marshal(payload)
	line, _ := json.Marshal(wjob{Kind: kind, Payload: pb})
	line = append(line, '\n')
	if _, err := w.in.Write(line); err != nil {
		delete(workers, stackMB)
		w.kill()
		return callOutcome{Died: true, Stderr: "write to worker failed: " + err.Error() + "\n" + w.stderr.String()}
	}
	select {
	case l, ok := <-w.lines:
		if !ok {
			delete(workers, stackMB)
			_ = w.cmd.Wait()
			return callOutcome{Died: true, Stderr: w.stderr.String()}
		}
		var res wresult
		if err := json.Unmarshal(l, &res); err != nil {
			res.Panic = "harness: bad worker answer: " + err.Error()
		}
		return callOutcome{Res: res}
	case <-time.After(timeout):
		delete(workers, stackMB)
		w.kill()
		return callOutcome{Hung: true, Stderr: w.stderr.String()}
	}
}

func stopWorkers() {
	workersMu.Lock()
	defer workersMu.Unlock()
	for k, w := range workers {
		_ = w.in.Close()
		done := make(chan struct{})
		go func() { _ = w.cmd.Wait(); close(done) }()
		select {
		case <-done:
		case <-time.After(2 * time.Second):
			w.kill()
		}
		delete(workers, k)
	}
}
