package props

// worker subprocess support is filled in by worker.go (C04, C07, C16)

func workerMain()  {}
func stopWorkers() {}
