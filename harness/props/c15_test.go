package props

// C15 — Pointer lookups on typed documents agree with their JSON form.

import (
	"encoding/json"
	"fmt"
	"sort"
	"strings"
	"testing"

	"github.com/go-openapi/jsonpointer"
	"pgregory.net/rapid"

	"verif/gen"
	"verif/model"
	"verif/vstat"
)

func allPointers(v any, prefix string, out *[]string) {
	*out = append(*out, prefix)
	switch c := v.(type) {
	case map[string]any:
		for _, k := range model.SortedKeys(c) {
			allPointers(c[k], prefix+"/"+model.EscTok(k), out)
		}
	case []any:
		for i, e := range c {
			allPointers(e, fmt.Sprintf("%s/%d", prefix, i), out)
		}
	}
}

var c15Kinds = []string{"swagger", "swagger", "swagger", "schema", "schema", "parameter", "response", "header", "items", "pathItem", "operation", "securityScheme", "info", "tag", "responses", "paths"}

type c15Stats struct {
	pointers, asserted, skippedRef, skippedUnlisted, deep int
	ntKeys                                                []string
}

func oracleC15(c codecCase) (*vstat.Failure, c15Stats) {
	f := &vstat.Failure{}
	var st c15Stats
	guard(f, "pointer", func() {
		typed := newTarget(c.Kind)
		if err := json.Unmarshal([]byte(c.Doc), typed); err != nil {
			f.Add("HARNESS", "", "document does not decode: %v", err)
			return
		}
		enc, err := json.Marshal(typed)
		if err != nil {
			f.Add("HARNESS", "", "document does not encode: %v", err)
			return
		}
		var generic any
		if err := json.Unmarshal(enc, &generic); err != nil {
			f.Add("HARNESS", "", "%v", err)
			return
		}
		// kinds the statement does not list: their x- members are outside the statement
		unlisted := map[string]bool{}
		gen.WalkKinds(c.Kind, generic, "", func(path, kind string, v any) {
			switch kind {
			case "contact", "license", "externalDocs", "xml":
				unlisted[path] = true
			}
		})
		var ptrs []string
		allPointers(generic, "", &ptrs)
		st.pointers = len(ptrs)
		for _, ps := range ptrs {
			toks := (model.Pos{Ptr: ps}).Tokens()
			skip := false
			for _, tk := range toks {
				if tk == "$ref" {
					skip = true
				}
			}
			if skip {
				st.skippedRef++
				continue
			}
			if len(toks) > 0 {
				parent := ps[:strings.LastIndex(ps, "/")]
				// any x- member at or below an unlisted kind
				p := ""
				bad := false
				for _, tk := range toks {
					if unlisted[p] && strings.HasPrefix(strings.ToLower(tk), "x-") {
						bad = true
					}
					p += "/" + model.EscTok(tk)
				}
				_ = parent
				if bad {
					st.skippedUnlisted++
					continue
				}
			}
			p, err := jsonpointer.New(ps)
			if err != nil {
				f.Add("HARNESS", ps, "pointer does not parse: %v", err)
				return
			}
			want, _, errW := p.Get(generic)
			if errW != nil {
				f.Add("HARNESS", ps, "lookup on the generic form failed: %v", errW)
				return
			}
			var got any
			var errG error
			func() {
				defer func() {
					if r := recover(); r != nil {
						errG = fmt.Errorf("panic: %v", r)
					}
				}()
				got, _, errG = p.Get(typed)
			}()
			st.asserted++
			if len(toks) >= 3 || strings.ContainsAny(ps, "~") {
				st.deep++
				st.ntKeys = append(st.ntKeys, c.Kind+ps)
			}
			if errG != nil {
				f.Add("LOOKUP-ERROR", ps, "typed %s: pointer %q fails (%v); on the JSON form it gives %s", c.Kind, ps, errG, model.JS(want))
				if len(f.Atoms) > 8 {
					return
				}
				continue
			}
			gb, errM := json.Marshal(got)
			if errM != nil {
				f.Add("LOOKUP-ERROR", ps, "typed %s: value at %q does not encode: %v", c.Kind, ps, errM)
				continue
			}
			var gv any
			_ = json.Unmarshal(gb, &gv)
			if !model.JSONEq(want, gv) {
				f.Add("LOOKUP-DIFFERS", ps, "typed %s: pointer %q gives %s, on the JSON form %s", c.Kind, ps, model.JS(gv), model.JS(want))
				if len(f.Atoms) > 8 {
					return
				}
			}
		}
	})
	return f, st
}

func TestC15(t *testing.T) {
	r := rec("C15")
	rapid.Check(t, func(t *rapid.T) {
		kind := c15Kinds[gen.Uniform(t, "kind", len(c15Kinds))]
		v := gen.NewV(t, gen.VocabOpts{Hostile: true, Refs: true, OptPct: 40, Budget: 60})
		c := codecCase{Kind: kind, Doc: string(mustJSON(v.Instance(kind)))}
		f, st := oracleC15(c)
		r.EvalN(st.asserted) // one evaluation = one pointer looked up on both forms
		r.Count("documents", 1)
		r.Label("kind=" + kind)
		r.Count("pointers enumerated", st.pointers)
		r.Count("pointers asserted", st.asserted)
		r.Count("pointers skipped ($ref token)", st.skippedRef)
		r.Count("pointers skipped (x- member of contact/license/externalDocs/xml)", st.skippedUnlisted)
		r.Count("pointers with >=3 tokens or an escaped token", st.deep)
		sort.Strings(st.ntKeys)
		for i, k := range st.ntKeys {
			if i%7 == 0 { // sample: hashing every pointer would dominate the run
				r.NonTrivial([]byte(k), nil)
			}
		}
		if st.deep > 0 {
			r.NonTrivial([]byte(c.Kind+c.Doc), c)
		}
		verdict(t, "C15", "pointers", c, f)
	})
}

func TestReplayC15(t *testing.T) {
	runReplays(t, "C15", func(variant string, raw json.RawMessage) *vstat.Failure {
		var c codecCase
		if err := json.Unmarshal(raw, &c); err != nil {
			return &vstat.Failure{Atoms: []vstat.Atom{{Kind: "HARNESS", Detail: err.Error()}}}
		}
		f, _ := oracleC15(c)
		return f
	})
}
