package props

// C07 — Decoding is total and its normalisation is idempotent.

import (
	"bytes"
	"encoding/json"
	"fmt"
	"sort"
	"strings"
	"testing"
	"time"

	"github.com/go-openapi/spec"
	"pgregory.net/rapid"

	"verif/gen"
	"verif/model"
	"verif/vstat"
)

// decodeTargets: every exported model type, with the vocabulary kind whose
// documents are the natural (pre-mutation) input for it.
var decodeTargets = map[string]struct {
	mk   func() any
	kind string
}{
	"Swagger":               {func() any { return new(spec.Swagger) }, "swagger"},
	"SwaggerProps":          {func() any { return new(spec.SwaggerProps) }, "swagger"},
	"Info":                  {func() any { return new(spec.Info) }, "info"},
	"InfoProps":             {func() any { return new(spec.InfoProps) }, "info"},
	"ContactInfo":           {func() any { return new(spec.ContactInfo) }, "contact"},
	"License":               {func() any { return new(spec.License) }, "license"},
	"Paths":                 {func() any { return new(spec.Paths) }, "paths"},
	"PathItem":              {func() any { return new(spec.PathItem) }, "pathItem"},
	"PathItemProps":         {func() any { return new(spec.PathItemProps) }, "pathItem"},
	"Operation":             {func() any { return new(spec.Operation) }, "operation"},
	"OperationProps":        {func() any { return new(spec.OperationProps) }, "operation"},
	"Parameter":             {func() any { return new(spec.Parameter) }, "parameter"},
	"ParamProps":            {func() any { return new(spec.ParamProps) }, "parameter"},
	"Items":                 {func() any { return new(spec.Items) }, "items"},
	"Header":                {func() any { return new(spec.Header) }, "header"},
	"HeaderProps":           {func() any { return new(spec.HeaderProps) }, "header"},
	"Response":              {func() any { return new(spec.Response) }, "response"},
	"ResponseProps":         {func() any { return new(spec.ResponseProps) }, "response"},
	"Responses":             {func() any { return new(spec.Responses) }, "responses"},
	"ResponsesProps":        {func() any { return new(spec.ResponsesProps) }, "responses"},
	"Schema":                {func() any { return new(spec.Schema) }, "schema"},
	"SchemaProps":           {func() any { return new(spec.SchemaProps) }, "schema"},
	"SwaggerSchemaProps":    {func() any { return new(spec.SwaggerSchemaProps) }, "schema"},
	"SchemaOrBool":          {func() any { return new(spec.SchemaOrBool) }, "schema"},
	"SchemaOrArray":         {func() any { return new(spec.SchemaOrArray) }, "schema"},
	"SchemaOrStringArray":   {func() any { return new(spec.SchemaOrStringArray) }, "schema"},
	"StringOrArray":         {func() any { return new(spec.StringOrArray) }, "tag"},
	"SchemaProperties":      {func() any { return new(spec.SchemaProperties) }, "schema"},
	"Definitions":           {func() any { return new(spec.Definitions) }, "schema"},
	"Dependencies":          {func() any { return new(spec.Dependencies) }, "schema"},
	"SecurityScheme":        {func() any { return new(spec.SecurityScheme) }, "securityScheme"},
	"SecuritySchemeProps":   {func() any { return new(spec.SecuritySchemeProps) }, "securityScheme"},
	"SecurityDefinitions":   {func() any { return new(spec.SecurityDefinitions) }, "securityScheme"},
	"Tag":                   {func() any { return new(spec.Tag) }, "tag"},
	"TagProps":              {func() any { return new(spec.TagProps) }, "tag"},
	"XMLObject":             {func() any { return new(spec.XMLObject) }, "xml"},
	"ExternalDocumentation": {func() any { return new(spec.ExternalDocumentation) }, "externalDocs"},
	"Ref":                   {func() any { return new(spec.Ref) }, "parameter"},
	"Refable":               {func() any { return new(spec.Refable) }, "response"},
	"SchemaURL":             {func() any { return new(spec.SchemaURL) }, "schema"},
	"VendorExtensible":      {func() any { return new(spec.VendorExtensible) }, "info"},
	"Extensions":            {func() any { return new(spec.Extensions) }, "info"},
	"CommonValidations":     {func() any { return new(spec.CommonValidations) }, "items"},
	"SchemaValidations":     {func() any { return new(spec.SchemaValidations) }, "schema"},
	"SimpleSchema":          {func() any { return new(spec.SimpleSchema) }, "items"},
}

var decodeTargetNames = func() []string {
	out := make([]string, 0, len(decodeTargets))
	for k := range decodeTargets {
		out = append(out, k)
	}
	sort.Strings(out)
	return out
}()

type c07Case struct {
	Target   string `json:"target"`
	Text     string `json:"text"`      // the bytes handed to json.Unmarshal
	CaseFold bool   `json:"case_fold"` // some member name case-folds onto a keyword: totality only
}

type c07Info struct {
	decoded    bool
	idempotent bool
}

// decodeOracle is the oracle of C07 on one input.
func decodeOracle(c c07Case) (*vstat.Failure, c07Info) {
	f := &vstat.Failure{}
	var info c07Info
	tg, ok := decodeTargets[c.Target]
	if !ok {
		f.Add("HARNESS", "", "unknown target %q", c.Target)
		return f, info
	}
	guard(f, "decode "+c.Target, func() {
		v1 := tg.mk()
		if err := json.Unmarshal([]byte(c.Text), v1); err != nil {
			return // an error is a fine outcome
		}
		info.decoded = true
		b1, err := json.Marshal(v1)
		if err != nil {
			return // so is an encode error (C06 checks what is emitted when there is none)
		}
		if c.CaseFold {
			return
		}
		v2 := tg.mk()
		if err := json.Unmarshal(b1, v2); err != nil {
			f.Add("NOT-A-FIXED-POINT", c.Target, "the encoded form %s of a successfully decoded %s does not decode again: %v", clip(b1), c.Target, err)
			return
		}
		b2, err := json.Marshal(v2)
		if err != nil {
			f.Add("NOT-A-FIXED-POINT", c.Target, "the re-decoded form of %s does not encode: %v", clip(b1), err)
			return
		}
		if bytes.Equal(b1, b2) {
			info.idempotent = true
			return
		}
		var a, b any
		if json.Unmarshal(b1, &a) != nil || json.Unmarshal(b2, &b) != nil {
			f.Add("NOT-A-FIXED-POINT", c.Target, "encodings are not JSON: %s / %s", clip(b1), clip(b2))
			return
		}
		atoms := model.Diff(a, b)
		if len(atoms) == 0 {
			f.Add("NOT-A-FIXED-POINT", c.Target, "second pass differs byte-wise (member order?): %s vs %s", clip(b1), clip(b2))
			return
		}
		for _, at := range atoms {
			known := ""
			if at.Kind == "LOST" && at.A == nil && model.LastToken(at.Path) == "items" {
				// K2 only if the input holds a JSON scalar at that position
				var in any
				dec := json.NewDecoder(strings.NewReader(c.Text))
				dec.UseNumber() // (number tokens such as 1e400 do not fit a float64)
				if dec.Decode(&in) == nil {
					if iv, err := model.GetIn(in, at.Path); err == nil {
						switch iv.(type) {
						case string, json.Number, float64, bool:
							known = "K2"
						}
					}
				}
			}
			f.AddKnown(known, "NOT-A-FIXED-POINT", at.Path, "decode+encode of the encoded form is not the identity: %s", at.String())
		}
	})
	return f, info
}

func clip(b []byte) string {
	if len(b) > 300 {
		return string(b[:300]) + "…"
	}
	return string(b)
}

func genC07(t *rapid.T) (c07Case, gen.MutationInfo, string) {
	target := decodeTargetNames[gen.Uniform(t, "target", len(decodeTargetNames))]
	tg := decodeTargets[target]
	switch src := gen.Uniform(t, "source", 10); {
	case src == 0:
		// arbitrary bytes
		b := rapid.SliceOfN(rapid.Byte(), 0, 40).Draw(t, "bytes")
		return c07Case{Target: target, Text: string(b)}, gen.MutationInfo{}, "bytes"
	case src == 1:
		// arbitrary JSON-ish text
		s := rapid.StringOfN(rapid.SampledFrom([]rune(`{}[]":,\ntrufalse0123456789.-+eE$ref x-`)), 0, 60, -1).Draw(t, "jsonish")
		return c07Case{Target: target, Text: s}, gen.MutationInfo{}, "jsonish"
	case src == 2:
		// a free-form JSON value
		v := gen.NewV(t, gen.VocabOpts{Hostile: true})
		val := v.Free(1)
		return c07Case{Target: target, Text: string(gen.Render(val)), CaseFold: gen.CaseFoldCollision(val)}, gen.MutationInfo{}, "free"
	default:
		v := gen.NewV(t, gen.VocabOpts{Hostile: true, Refs: true, Budget: 25, EmptySecurity: true})
		kind := tg.kind
		if gen.Pct(t, "otherkind", 15) {
			kind = gen.Kinds[gen.Uniform(t, "kind", len(gen.Kinds))]
		}
		doc := v.Instance(kind)
		if gen.Pct(t, "xorder", 30) {
			decorateXOrder(t, doc) // ordering extensions, also spelled X-Order: the fixed point must not depend on their case
		}
		if src == 3 {
			// unmutated (but possibly for a target that is not the document's kind)
			return c07Case{Target: target, Text: string(gen.Render(doc)), CaseFold: gen.CaseFoldCollision(doc)}, gen.MutationInfo{}, "plain"
		}
		mut, info := gen.Mutate(t, doc)
		return c07Case{Target: target, Text: string(gen.Render(mut)), CaseFold: info.CaseFolded || gen.CaseFoldCollision(mut)}, info, "mutated"
	}
}

func init() {
	jobHandlers["c07"] = func(raw json.RawMessage) (any, error) {
		var c c07Case
		if err := json.Unmarshal(raw, &c); err != nil {
			return nil, err
		}
		f, _ := decodeOracle(c)
		return f, nil
	}
}

// deepProbe: decoding very deep nesting must end in a value or an error, within
// a bounded stack (run in the worker).
func deepProbe(t *testing.T, r *vstat.Recorder) {
	for _, d := range []int{2000, 12000} {
		for _, target := range []string{"Schema", "Swagger", "Items", "SchemaOrArray"} {
			var text string
			switch target {
			case "Swagger":
				text = `{"definitions":{"a":` + string(gen.Render(deepNestSchema(d))) + `}}`
			case "Items":
				text = string(gen.Render(deepNestKW(d, "items")))
			default:
				text = string(gen.Render(deepNestSchema(d)))
			}
			c := c07Case{Target: target, Text: text}
			o := callWorker(64, "c07", c, 180*time.Second)
			f := &vstat.Failure{}
			switch {
			case o.Hung:
				f.Add("HANG", target, "decoding %d nested levels did not end within 180 s", d)
			case o.Died:
				f.Add("FATAL", target, "decoding %d nested levels killed the worker: %s", d, tailOf(o.Stderr))
			case o.Res.Panic != "":
				f.Add("PANIC", target, "%s", o.Res.Panic)
			default:
				var wf vstat.Failure
				_ = json.Unmarshal(o.Res.Data, &wf)
				f = &wf
			}
			r.Eval()
			r.Label("deep nesting probe")
			small := c
			small.Text = fmt.Sprintf("<%d nested levels for %s>", d, target)
			verdict(t, "C07", "deep", c, f)
		}
	}
}

func deepNestKW(d int, kw string) gen.Raw {
	b := bytes.Repeat([]byte(`{"`+kw+`":`), d)
	b = append(b, "{}"...)
	b = append(b, bytes.Repeat([]byte("}"), d)...)
	return gen.Raw(b)
}

func deepNestSchema(d int) gen.Raw { return deepNestKW(d, "not") }

func TestC07(t *testing.T) {
	r := rec("C07")
	if s, _ := shardInfo(); s == 0 {
		deepProbe(t, r)
	}
	rapid.Check(t, func(t *rapid.T) {
		c, minfo, src := genC07(t)
		f, info := decodeOracle(c)
		r.Eval()
		r.Label("source=" + src)
		r.LabelIf(info.decoded, "decoded")
		r.LabelIf(!info.decoded, "rejected (error)")
		r.LabelIf(info.idempotent, "fixed point reached")
		r.LabelIf(c.CaseFold, "case-fold collision: totality only")
		r.LabelIf(minfo.Duplicated, "duplicate member")
		r.LabelIf(minfo.TypeChange, "type/emptiness change")
		r.LabelIf(minfo.Deleted, "member deleted")
		if minfo.TypeChange || minfo.Duplicated {
			r.NonTrivial([]byte(c.Target+c.Text), c)
		}
		verdict(t, "C07", "decode", c, f)
	})
}

func TestReplayC07(t *testing.T) {
	runReplays(t, "C07", func(variant string, raw json.RawMessage) *vstat.Failure {
		var c c07Case
		if err := json.Unmarshal(raw, &c); err != nil {
			return &vstat.Failure{Atoms: []vstat.Atom{{Kind: "HARNESS", Detail: err.Error()}}}
		}
		f, _ := decodeOracle(c)
		return f
	})
}

func fuzzDecode(f *testing.F, target string, seeds ...string) {
	for _, s := range seeds {
		f.Add([]byte(s))
	}
	f.Fuzz(func(t *testing.T, data []byte) {
		var v any
		cf := false
		if json.Unmarshal(data, &v) == nil {
			cf = gen.CaseFoldCollision(v)
		}
		c := c07Case{Target: target, Text: string(data), CaseFold: cf}
		fl, _ := decodeOracle(c)
		rec("C07").Eval()
		verdict(t, "C07", "decode", c, fl)
	})
}

var schemaSeeds = []string{`{}`, `{"type":"object","properties":{"a":{"$ref":"#/definitions/a"}},"items":[{"type":"string"}],"additionalProperties":false}`, `{"items":[]}`, `{"type":["a","b"],"x-order":1,"dependencies":{"a":["b"],"c":{}}}`, `{"$ref":"#","enum":[null],"default":{"a":[]},"maximum":0}`}

func FuzzC07Schema(f *testing.F) { fuzzDecode(f, "Schema", schemaSeeds...) }
func FuzzC07Swagger(f *testing.F) {
	fuzzDecode(f, "Swagger", `{"swagger":"2.0","info":{"title":"t","version":"v"},"paths":{"/a":{"get":{"responses":{"200":{"description":"ok"}}}}},"security":[{"a":[]}]}`, `{"paths":null,"definitions":{"a":1}}`)
}
func FuzzC07Parameter(f *testing.F) {
	fuzzDecode(f, "Parameter", `{"name":"a","in":"query","type":"array","items":{"type":"string"},"x-a":1}`, `{"$ref":"#/parameters/x"}`, `{"in":"body","schema":{"items":[]}}`)
}
func FuzzC07Responses(f *testing.F) {
	fuzzDecode(f, "Responses", `{"default":{"description":"d"},"200":{"description":"ok","headers":{"h":{"type":"string"}}},"x-r":1}`, `{"foo":{}}`)
}
func FuzzC07PathItem(f *testing.F) {
	fuzzDecode(f, "PathItem", `{"$ref":"#/x","get":{"responses":{}},"parameters":[{"$ref":"#/p"}],"x-p":1}`)
}
func FuzzC07SecurityScheme(f *testing.F) {
	fuzzDecode(f, "SecurityScheme", `{"type":"oauth2","flow":"implicit","authorizationUrl":"","scopes":{}}`)
}
