package props

import (
	"encoding/json"
	"fmt"
	"os"
	"path/filepath"
	"runtime/debug"
	"sort"
	"strings"
	"sync"
	"testing"

	"pgregory.net/rapid"

	"verif/vstat"
)

// ---------------------------------------------------------------------------
// recorders, one per property, flushed by TestMain

var (
	recMu sync.Mutex
	recs  = map[string]*vstat.Recorder{}
)

func rec(prop string) *vstat.Recorder {
	recMu.Lock()
	defer recMu.Unlock()
	r, ok := recs[prop]
	if !ok {
		r = vstat.New(prop)
		recs[prop] = r
	}
	return r
}

func phase() string {
	if p := os.Getenv("VERIF_PHASE"); p != "" {
		return p
	}
	return "gen"
}

func flushAll() {
	recMu.Lock()
	defer recMu.Unlock()
	for _, r := range recs {
		r.Flush(phase())
	}
}

func TestMain(m *testing.M) {
	if os.Getenv("VERIF_WORKER") != "" {
		workerMain()
		return
	}
	code := m.Run()
	flushAll()
	stopWorkers()
	os.Exit(code)
}

func tier() string {
	if t := os.Getenv("VERIF_TIER"); t != "" {
		return t
	}
	return "quick"
}

// fataler is what both *testing.T and *rapid.T offer.
type fataler interface {
	Fatalf(format string, args ...any)
	Logf(format string, args ...any)
}

// verdict turns the failure of one case into the outcome of the check:
// atoms covered by a listed known finding are counted, anything else fails the
// run after the case was written out as a replay file.
func verdict(t fataler, prop, variant string, c any, f *vstat.Failure) {
	if f.Empty() {
		return
	}
	known, unknown := vstat.Split(prop, f)
	if len(unknown) == 0 {
		seen := map[string]bool{}
		for _, a := range known {
			if !seen[a.Known] {
				seen[a.Known] = true
				rec(prop).KnownHit(a.Known, a.String())
			}
		}
		return
	}
	p := vstat.RecordFailure(prop, variant, c, f)
	t.Fatalf("property %s (%s) violated; case written to %s%s", prop, variant, p, f.String())
}

// guard converts a panic of the code under test into a failure atom.
func guard(f *vstat.Failure, what string, fn func()) {
	defer func() {
		if r := recover(); r != nil {
			st := string(debug.Stack())
			if len(st) > 1500 {
				st = st[:1500]
			}
			f.Add("PANIC", what, "%v\n%s", r, st)
		}
	}()
	fn()
}

// ---------------------------------------------------------------------------
// replay tier

// replayFiles lists the replay files this run was asked to execute:
// $VERIF_REPLAY is a file or a directory.
func replayFiles(t *testing.T, prop string) []string {
	p := os.Getenv("VERIF_REPLAY")
	if p == "" {
		p = filepath.Join("/verif/replays", prop)
	}
	st, err := os.Stat(p)
	if err != nil {
		return nil
	}
	if !st.IsDir() {
		return []string{p}
	}
	var out []string
	_ = filepath.Walk(p, func(path string, info os.FileInfo, err error) error {
		if err == nil && !info.IsDir() && strings.HasSuffix(path, ".json") {
			out = append(out, path)
		}
		return nil
	})
	sort.Strings(out)
	return out
}

// runReplays feeds each replay file of prop to fn (which re-runs the oracle
// without rapid) and applies the same verdict as the generated tier.
func runReplays(t *testing.T, prop string, fn func(variant string, raw json.RawMessage) *vstat.Failure) {
	files := replayFiles(t, prop)
	r := rec(prop)
	for _, p := range files {
		b, err := os.ReadFile(p)
		if err != nil {
			t.Errorf("replay %s: %v", p, err)
			continue
		}
		var rf vstat.ReplayFile
		if err := json.Unmarshal(b, &rf); err != nil {
			t.Errorf("replay %s: %v", p, err)
			continue
		}
		if rf.Property != prop {
			continue
		}
		r.Count("replayed", 1)
		r.Eval()
		var f *vstat.Failure
		func() {
			f = &vstat.Failure{}
			defer func() {
				if rc := recover(); rc != nil {
					f.Add("PANIC", "replay", "%v\n%s", rc, debug.Stack())
				}
			}()
			vstat.InFlight(prop, rf.Variant, rf.Case) // (a replay that kills the process is reported with this file)
			defer vstat.ClearInFlight(prop)
			f = fn(rf.Variant, rf.Case)
		}()
		known, unknown := vstat.Split(prop, f)
		for _, a := range known {
			r.KnownHit(a.Known, a.String())
		}
		if len(unknown) > 0 {
			var c any
			_ = json.Unmarshal(rf.Case, &c)
			out := vstat.RecordFailure(prop, rf.Variant, c, f)
			// keep the original path visible: the driver reports it as the replay
			fmt.Printf("REPLAY-FAILED property=%s file=%s out=%s\n", prop, p, out)
			t.Errorf("replay %s violates %s:%s", p, prop, f.String())
			vstat.NextFailure()
		}
	}
}

// ---------------------------------------------------------------------------
// small helpers shared by the properties

func mustJSON(v any) []byte {
	b, err := json.Marshal(v)
	if err != nil {
		panic(err)
	}
	return b
}

func decodeAny(b []byte) (any, error) {
	var v any
	err := json.Unmarshal(b, &v)
	return v, err
}

func sortedKeys[V any](m map[string]V) []string {
	ks := make([]string, 0, len(m))
	for k := range m {
		ks = append(ks, k)
	}
	sort.Strings(ks)
	return ks
}

// checkRapid runs prop under rapid and flushes nothing itself (TestMain does).
func checkRapid(t *testing.T, prop func(t *rapid.T)) {
	t.Helper()
	rapid.Check(t, prop)
}
