package props

// C13 — Reference values canonicalise idempotently and survive JSON and gob.
//
// Domain : reference strings over URL syntax (scheme in any case or none, host /
//          host:port / IPv6 or none, 0–4 path segments, fragment forms), no userinfo.
// Oracle : c = NewRef(s).String(); NewRef(c).String()==c; classification flags,
//          IsRoot, IsCanonical and pointer equal for s and c; JSON = {} for the
//          empty reference, otherwise exactly {"$ref": c}; JSON and gob round trips
//          give an equal reference; carriers (Schema, Parameter, Response, PathItem,
//          Items, Header-less Refable) emit the same $ref member.
// NT     : c != s.

import (
	"bytes"
	"encoding/gob"
	"encoding/json"
	"fmt"
	"net/url"
	"regexp"
	"testing"
	"unicode/utf8"

	"github.com/go-openapi/spec"
	"pgregory.net/rapid"

	"verif/vstat"
)

type c13Case struct {
	S string `json:"s"`
}

func refFlags(r spec.Ref) string {
	return fmt.Sprintf("full=%v pathonly=%v frag=%v file=%v fullfile=%v root=%v canon=%v nilurl=%v ptr=%q",
		r.HasFullURL, r.HasURLPathOnly, r.HasFragmentOnly, r.HasFileScheme, r.HasFullFilePath, r.IsRoot(), r.IsCanonical(),
		r.GetURL() == nil, r.GetPointer().String())
}

var c13Schemes = []string{"", "", "http", "HTTP", "hTTps", "https", "file", "File", "ftp", "urn", "x-y+z.1"}
var c13Hosts = []string{"", "localhost", "h.example", "LocalHost", "localhost:80", "H.Example", "h.example:80", "h.example:443", "h.example:8080", "H.EXAMPLE:080", "[::1]", "[::1]:80", "[::1]:443", "127.0.0.1:80", "xn--e1afmkfd.example", "é.example", "h.example:"}
var c13Segs = []string{"a", "b.json", ".", "..", "c%20d", "c d", "é", "%C3%A9", "%c3%a9", "%41", "", "x;y", "a:b", "%2F", "%2f", "~", "{id}", "a%25b", "a+b", "a&b=c", "A", "a^b", "a|b", "a\"b", "a<b>", "a\\b", "%7Euser", "%7euser", "a@b"}
var c13Frags = []string{"", "#", "#/", "#/definitions/a", "#/a~1b/c~0d", "#/a%20b", "#/a b", "#/%7Bx%7D", "#/{x}", "#/é", "#/%C3%A9", "#frag", "#/a%25b", "#/a%2Fb", "#/^x$", "#/a\"b", "#/a`b", "#/a|b", "#/a\\b", "#/a?b", "#/a#b", "#/~", "#/~2", "#//", "#/a//b", "#?"}
var c13Queries = []string{"", "", "", "?", "?a=b", "?a=b&c=d%20e", "?A=%c3%a9", "?a b"}

func genC13(t *rapid.T) c13Case {
	if rapid.IntRange(0, 19).Draw(t, "raw") == 0 {
		// free-form strings over a URL-ish alphabet
		return c13Case{S: rapid.StringOfN(rapid.SampledFrom([]rune("aA/.:#%2Ff~01 ?@[]é{}^\"\\")), 0, 14, -1).Draw(t, "rawstr")}
	}
	scheme := rapid.SampledFrom(c13Schemes).Draw(t, "scheme")
	host := rapid.SampledFrom(c13Hosts).Draw(t, "host")
	seg := rapid.SampledFrom(c13Segs)
	nseg := rapid.IntRange(0, 4).Draw(t, "nseg")
	path := ""
	for i := 0; i < nseg; i++ {
		path += "/" + seg.Draw(t, "seg")
	}
	if nseg > 0 && rapid.IntRange(0, 5).Draw(t, "trail") == 0 {
		path += "/"
	}
	if rapid.Bool().Draw(t, "relpath") && len(path) > 0 {
		path = path[1:]
	}
	q := rapid.SampledFrom(c13Queries).Draw(t, "query")
	frag := rapid.SampledFrom(c13Frags).Draw(t, "frag")
	s := ""
	if scheme != "" {
		s = scheme + ":"
	}
	if host != "" || (scheme != "" && rapid.Bool().Draw(t, "slashes")) {
		s += "//" + host
		if path != "" && path[0] != '/' {
			path = "/" + path
		}
	}
	return c13Case{S: s + path + q + frag}
}

// c13InDomain: the statement quantifies over URL syntax whose authority, if
// present, is a host with at most one port (no userinfo).
func c13InDomain(s string) bool {
	if !utf8.ValidString(s) {
		return false // not a string of characters: JSON cannot carry it
	}
	u, err := url.Parse(s)
	if err != nil {
		return false
	}
	if u.User != nil {
		return false
	}
	// a host (registered name, IPv4 or bracketed IPv6 literal) with at most one port
	return c13Host.MatchString(u.Host)
}

var c13Host = regexp.MustCompile(`^(\[[0-9a-fA-F:.]+\]|[^\[\]:]*)(:[0-9]*)?$`)

func sameRef(f *vstat.Failure, what string, want, got spec.Ref) {
	if want.String() != got.String() {
		f.Add("CHANGED", what, "string %q became %q", want.String(), got.String())
	}
	if refFlags(want) != refFlags(got) {
		f.Add("CHANGED", what, "classification %s became %s", refFlags(want), refFlags(got))
	}
}

func oracleC13(c c13Case) (*vstat.Failure, bool) {
	f := &vstat.Failure{}
	s := c.S
	r, err := spec.NewRef(s)
	if err != nil {
		return f, false // not a reference: outside the domain
	}
	canon := r.String()
	guard(f, "canonical", func() {
		r2, err := spec.NewRef(canon)
		if err != nil {
			f.Add("ERROR", "reparse", "canonical text %q (from %q) does not parse: %v", canon, s, err)
			return
		}
		if r2.String() != canon {
			f.Add("CHANGED", "idempotence", "%q -> %q -> %q", s, canon, r2.String())
		}
		if refFlags(r) != refFlags(r2) {
			f.Add("CHANGED", "classification", "%q: %s ; canonical %q: %s", s, refFlags(r), canon, refFlags(r2))
		}
		// MustCreateRef agrees with NewRef
		if m := spec.MustCreateRef(s); m.String() != canon {
			f.Add("CHANGED", "MustCreateRef", "%q vs %q", m.String(), canon)
		}
	})
	guard(f, "json", func() {
		b, err := json.Marshal(r)
		if err != nil {
			f.Add("ERROR", "json.Marshal", "%v", err)
			return
		}
		var m map[string]any
		if err := json.Unmarshal(b, &m); err != nil {
			f.Add("ERROR", "json form", "%s: %v", b, err)
			return
		}
		if len(m) != 1 || m["$ref"] != any(canon) {
			f.Add("CHANGED", "json form", "reference %q encodes as %s, want exactly {\"$ref\":%q}", canon, b, canon)
		}
		var r3 spec.Ref
		if err := json.Unmarshal(b, &r3); err != nil {
			f.Add("ERROR", "json.Unmarshal", "%s: %v", b, err)
			return
		}
		sameRef(f, "json round trip", r, r3)
		// pointer receiver and value receiver agree
		bp, _ := json.Marshal(&r)
		if !bytes.Equal(b, bp) {
			f.Add("CHANGED", "json pointer/value", "%s vs %s", b, bp)
		}
	})
	guard(f, "gob", func() {
		var buf bytes.Buffer
		if err := gob.NewEncoder(&buf).Encode(r); err != nil {
			f.Add("ERROR", "gob encode", "%v", err)
			return
		}
		var r4 spec.Ref
		if err := gob.NewDecoder(&buf).Decode(&r4); err != nil {
			f.Add("ERROR", "gob decode", "%v", err)
			return
		}
		sameRef(f, "gob round trip", r, r4)
	})
	guard(f, "carriers", func() {
		want := any(canon)
		check := func(kind string, v any) {
			b, err := json.Marshal(v)
			if err != nil {
				f.Add("ERROR", kind, "marshal: %v", err)
				return
			}
			var m map[string]any
			if err := json.Unmarshal(b, &m); err != nil {
				f.Add("ERROR", kind, "%s: %v", b, err)
				return
			}
			if m["$ref"] != want {
				f.Add("CHANGED", kind, "carrier encodes %s, want $ref=%q", b, canon)
			}
		}
		check("schema", spec.Schema{SchemaProps: spec.SchemaProps{Ref: r}})
		check("parameter", spec.Parameter{Refable: spec.Refable{Ref: r}})
		check("response", spec.Response{Refable: spec.Refable{Ref: r}})
		check("pathitem", spec.PathItem{Refable: spec.Refable{Ref: r}})
		check("items", spec.Items{Refable: spec.Refable{Ref: r}})
		check("refable", spec.Refable{Ref: r})
		// and decode the carrier back
		var sch spec.Schema
		if err := json.Unmarshal(mustJSON(map[string]any{"$ref": s}), &sch); err != nil {
			f.Add("ERROR", "schema decode", "%v", err)
		} else {
			sameRef(f, "schema decode", r, sch.Ref)
		}
	})
	return f, canon != s
}

func oracleC13Zero() *vstat.Failure {
	f := &vstat.Failure{}
	var z spec.Ref
	b, err := json.Marshal(z)
	if err != nil || string(b) != "{}" {
		f.Add("CHANGED", "zero json", "empty reference encodes as %s (%v), want {}", b, err)
	}
	var back spec.Ref
	if err := json.Unmarshal([]byte("{}"), &back); err != nil {
		f.Add("ERROR", "zero json decode", "%v", err)
	} else {
		sameRef(f, "zero json round trip", z, back)
	}
	var buf bytes.Buffer
	if err := gob.NewEncoder(&buf).Encode(z); err != nil {
		f.Add("ERROR", "zero gob", "%v", err)
	} else {
		var r4 spec.Ref
		if err := gob.NewDecoder(&buf).Decode(&r4); err != nil {
			f.Add("ERROR", "zero gob decode", "%v", err)
		} else {
			sameRef(f, "zero gob round trip", z, r4)
		}
	}
	for kind, v := range map[string]any{"schema": spec.Schema{}, "refable": spec.Refable{}} {
		b, _ := json.Marshal(v)
		if string(b) != "{}" {
			f.Add("CHANGED", "zero "+kind, "encodes as %s", b)
		}
	}
	return f
}

func TestC13(t *testing.T) {
	r := rec("C13")
	verdict(t, "C13", "zero", c13Case{}, oracleC13Zero())
	rapid.Check(t, func(t *rapid.T) {
		c := genC13(t)
		if !c13InDomain(c.S) {
			r.Excluded("not URL syntax / userinfo")
			t.Skip("outside domain")
		}
		f, nt := oracleC13(c)
		r.Eval()
		r.LabelIf(nt, "canonical!=input")
		u, _ := url.Parse(c.S)
		r.LabelIf(u.Scheme != "", "has scheme")
		r.LabelIf(u.Host != "", "has host")
		r.LabelIf(u.Fragment != "", "has fragment")
		if nt {
			r.NonTrivial([]byte(c.S), c)
		}
		verdict(t, "C13", "string", c, f)
	})
}

func ReplayC13case(variant string, raw json.RawMessage) *vstat.Failure {
	if variant == "zero" {
		return oracleC13Zero()
	}
	var c c13Case
	if err := json.Unmarshal(raw, &c); err != nil {
		return &vstat.Failure{Atoms: []vstat.Atom{{Kind: "HARNESS", Detail: err.Error()}}}
	}
	if !c13InDomain(c.S) {
		return &vstat.Failure{} // outside the domain of the statement
	}
	f, _ := oracleC13(c)
	return f
}

func TestReplayC13(t *testing.T) { runReplays(t, "C13", ReplayC13case) }

func FuzzC13(f *testing.F) {
	for _, s := range []string{"", "#", "#/definitions/a", "http://H.example:80//a//b#/x", "file:///a/b.json", "a/../b.json#/c~1d", "HTTP://[::1]:80/%7Bx%7D"} {
		f.Add(s)
	}
	f.Fuzz(func(t *testing.T, s string) {
		if !c13InDomain(s) {
			return
		}
		c := c13Case{S: s}
		fl, nt := oracleC13(c)
		rec("C13").Eval()
		if nt {
			rec("C13").NonTrivial([]byte(s), c)
		}
		verdict(t, "C13", "string", c, fl)
	})
}
