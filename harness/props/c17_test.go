package props

// C17 — Concurrent use on independent data is race-free with sequential answers.
//
// The binary is built with -race (GORACE=halt_on_error=1 exitcode=66): a data
// race kills the process, the driver then reports the plan that was in flight.

import (
	"bytes"
	"encoding/json"
	"fmt"
	"runtime"
	"strings"
	"sync"
	"testing"
	"time"

	"github.com/go-openapi/jsonpointer"
	"github.com/go-openapi/spec"
	"pgregory.net/rapid"

	"verif/gen"
	"verif/model"
	"verif/vstat"
)

type c17Op struct {
	Op    string `json:"op"`              // expandspec | expandschema | expandschema-root | resolve | marshal | pointer
	Elem  string `json:"elem,omitempty"`  // element pointer (expandschema*), reference (resolve), pointer (pointer)
	Cache string `json:"cache,omitempty"` // none | own | shared
	Yield int    `json:"yield,omitempty"` // runtime.Gosched() calls before the op
	World int    `json:"world,omitempty"` // 1: the op works on the second set of documents (same URLs, other content), through its own loader
}

type c17Plan struct {
	Graph      gen.GraphCase `json:"graph"`
	GoMaxProcs int           `json:"gomaxprocs"`
	Goroutines [][]c17Op     `json:"goroutines"`
	Fresh      bool          `json:"fresh_process"` // run in a fresh process (first-use races of lazily initialised package state)
	// Alt: a second set of documents under the same URLs (every title prefixed): goroutines working on "distinct
	// documents", each through its own loader. LoaderDelayUS makes the loaders slow, so that retrievals overlap.
	// SharedOptions: all the goroutines of one world pass the same *ExpandOptions value (which nobody mutates)
	SharedOptions bool              `json:"shared_options,omitempty"`
	Alt           map[string]string `json:"alt_docs,omitempty"`
	LoaderDelayUS int               `json:"loader_delay_us,omitempty"`
}

type c17Env struct {
	plan        c17Plan
	docs        [2]map[string]string
	loaders     [2]*memLoader
	sharedRoots [2]*spec.Swagger
	sharedCache *logCache
	sharedOpts  [2]*spec.ExpandOptions
}

func newC17Env(p c17Plan) (*c17Env, error) {
	e := &c17Env{plan: p, sharedCache: newLogCache()}
	e.docs[0], e.docs[1] = p.Graph.Docs, p.Alt
	for w := 0; w < 2; w++ {
		if e.docs[w] == nil {
			continue
		}
		e.loaders[w] = newLoader(e.docs[w], nil)
		if p.SharedOptions {
			e.sharedOpts[w] = &spec.ExpandOptions{RelativeBase: p.Graph.Root, PathLoader: e.load(w)}
		}
		e.sharedRoots[w] = new(spec.Swagger)
		if err := json.Unmarshal([]byte(e.docs[w][p.Graph.Root]), e.sharedRoots[w]); err != nil {
			return nil, err
		}
	}
	return e, nil
}

// load: the loader of one world, slowed down when the plan says so.
func (e *c17Env) load(w int) func(string) (json.RawMessage, error) {
	l, delay := e.loaders[w], time.Duration(e.plan.LoaderDelayUS)*time.Microsecond
	return func(p string) (json.RawMessage, error) {
		if delay > 0 {
			time.Sleep(delay)
		}
		return l.load(p)
	}
}

func (e *c17Env) run(op c17Op) (out []byte, errText string) {
	defer func() {
		if r := recover(); r != nil {
			errText = fmt.Sprintf("panic: %v", r)
		}
	}()
	for i := 0; i < op.Yield; i++ {
		runtime.Gosched()
	}
	w := op.World
	if w != 0 && e.docs[1] == nil {
		return nil, "harness: no second world in this plan"
	}
	opts := &spec.ExpandOptions{RelativeBase: e.plan.Graph.Root, PathLoader: e.load(w)}
	if e.sharedOpts[w] != nil {
		opts = e.sharedOpts[w]
	}
	var cache spec.ResolutionCache
	switch op.Cache {
	case "own":
		cache = newLogCache()
	case "shared":
		cache = e.sharedCache
	}
	switch op.Op {
	case "expandspec":
		var sw spec.Swagger
		if err := json.Unmarshal([]byte(e.docs[w][e.plan.Graph.Root]), &sw); err != nil {
			return nil, "harness: " + err.Error()
		}
		if err := spec.ExpandSpec(&sw, opts); err != nil {
			errText = err.Error()
		}
		out, _ = json.Marshal(&sw)
	case "expandschema", "expandschema-root":
		g := gen.GraphCase{Root: e.plan.Graph.Root, Docs: e.docs[w]}.Graph()
		n, err := g.Get(model.Pos{Doc: e.plan.Graph.Root, Ptr: op.Elem})
		if err != nil {
			return nil, "harness: " + err.Error()
		}
		var s spec.Schema
		if err := json.Unmarshal(mustJSON(n), &s); err != nil {
			return nil, "harness: " + err.Error()
		}
		if op.Op == "expandschema" {
			err = spec.ExpandSchemaWithBasePath(&s, cache, opts)
		} else {
			err = spec.ExpandSchema(&s, e.sharedRoots[w], cache) // shared read-only typed root
		}
		if err != nil {
			errText = err.Error()
		}
		out, _ = json.Marshal(&s)
	case "resolve":
		r, err := spec.NewRef(op.Elem)
		if err != nil {
			return nil, "harness: " + err.Error()
		}
		s, err := spec.ResolveRefWithBase(e.sharedRoots[w], &r, opts)
		if err != nil {
			errText = err.Error()
		}
		out, _ = json.Marshal(s)
	case "badid":
		// a $ref-free schema whose `id` is not a URL, expanded from a location that is not one either: the
		// package repairs both (and says so on its log); op.Elem is the id, the base is derived from it
		var s spec.Schema
		if err := json.Unmarshal(mustJSON(map[string]any{"id": op.Elem, "title": "T", "properties": map[string]any{"p": map[string]any{"type": "string"}}}), &s); err != nil {
			return nil, "harness: " + err.Error()
		}
		bad := *opts
		if len(op.Elem)%2 == 0 {
			bad.RelativeBase = "file:///w/a/%zz" + fmt.Sprint(len(op.Elem)) + "/root.json"
		}
		if err := spec.ExpandSchemaWithBasePath(&s, cache, &bad); err != nil {
			errText = err.Error()
		}
		out, _ = json.Marshal(&s)
	case "marshal":
		b, err := json.Marshal(e.sharedRoots[w])
		if err != nil {
			errText = err.Error()
		}
		out = b
	case "pointer":
		p, err := jsonpointer.New(op.Elem)
		if err != nil {
			return nil, "harness: " + err.Error()
		}
		v, _, err := p.Get(e.sharedRoots[w])
		if err != nil {
			errText = err.Error()
		}
		out, _ = json.Marshal(v)
	}
	return out, errText
}

// stable: can the output of the op be compared byte-wise? (cyclic expansions legitimately depend on map order)
func (e *c17Env) stable(op c17Op) bool {
	g := e.plan.Graph.Graph()
	switch op.Op {
	case "expandspec":
		return g.Acyclic(rootElems(g, e.plan.Graph.Root))
	case "expandschema", "expandschema-root":
		return g.Acyclic([]model.Elem{{P: model.Pos{Doc: e.plan.Graph.Root, Ptr: op.Elem}, K: model.KSchema}})
	}
	return true
}

// executePlan runs the plan concurrently, then every op alone, and compares.
func executePlan(p c17Plan) *vstat.Failure {
	f := &vstat.Failure{}
	e, err := newC17Env(p)
	if err != nil {
		f.Add("HARNESS", "", "%v", err)
		return f
	}
	old := spec.PathLoader
	spec.PathLoader = e.load(0)
	defer func() { spec.PathLoader = old }()
	prev := runtime.GOMAXPROCS(p.GoMaxProcs)
	defer runtime.GOMAXPROCS(prev)

	type res struct {
		out []byte
		err string
	}
	results := make([][]res, len(p.Goroutines))
	var wg sync.WaitGroup
	start := make(chan struct{})
	for gi := range p.Goroutines {
		results[gi] = make([]res, len(p.Goroutines[gi]))
		wg.Add(1)
		go func(gi int) {
			defer wg.Done()
			<-start
			for oi, op := range p.Goroutines[gi] {
				out, et := e.run(op)
				results[gi][oi] = res{out, et}
			}
		}(gi)
	}
	done := make(chan struct{})
	go func() { wg.Wait(); close(done) }()
	close(start)
	select {
	case <-done:
	case <-time.After(90 * time.Second):
		f.Add("DEADLOCK", "", "the plan did not finish within 90 s (%d goroutines)", len(p.Goroutines))
		return f
	}
	// the same ops, each alone
	for gi := range p.Goroutines {
		for oi, op := range p.Goroutines[gi] {
			alone := newC17EnvMust(p)
			alone.sharedCache = newLogCache()
			out, et := alone.run(op)
			got := results[gi][oi]
			where := fmt.Sprintf("goroutine %d op %d (%s %s cache=%s)", gi, oi, op.Op, op.Elem, op.Cache)
			if strings.HasPrefix(et, "harness:") {
				continue
			}
			if (et == "") != (got.err == "") {
				f.Add("DIFFERS-FROM-SEQUENTIAL", where, "running alone: err=%q; running concurrently: err=%q", et, got.err)
				continue
			}
			// (a failing expansion leaves a partial result that depends on the order in which the members were visited)
			if et == "" && e.stable(op) && !bytes.Equal(out, got.out) {
				f.Add("DIFFERS-FROM-SEQUENTIAL", where, "running alone gives %s, running concurrently gave %s", clip(out), clip(got.out))
			}
		}
	}
	return f
}

func newC17EnvMust(p c17Plan) *c17Env {
	e, err := newC17Env(p)
	if err != nil {
		panic(err)
	}
	return e
}

func init() {
	jobHandlers["c17plan"] = func(raw json.RawMessage) (any, error) {
		var p c17Plan
		if err := json.Unmarshal(raw, &p); err != nil {
			return nil, err
		}
		return executePlan(p), nil
	}
}

func oracleC17(p c17Plan) *vstat.Failure {
	if !p.Fresh {
		return executePlan(p)
	}
	// in a fresh process: lazily initialised package state is first used concurrently
	workersMu.Lock()
	if w := workers[63]; w != nil {
		delete(workers, 63)
		w.kill()
	}
	workersMu.Unlock()
	o := callWorker(63, "c17plan", p, 150*time.Second)
	f := &vstat.Failure{}
	switch {
	case o.Hung:
		f.Add("DEADLOCK", "", "fresh-process plan did not finish within 150 s")
	case o.Died:
		if strings.Contains(o.Stderr, "DATA RACE") {
			f.Add("DATA-RACE", "", "%s", raceSummary(o.Stderr))
		} else {
			f.Add("FATAL", "", "the process running the plan died: %s", tailOf(o.Stderr))
		}
	case o.Res.Panic != "":
		f.Add("PANIC", "", "%s", o.Res.Panic)
	default:
		var wf vstat.Failure
		_ = json.Unmarshal(o.Res.Data, &wf)
		f = &wf
	}
	return f
}

func raceSummary(s string) string {
	if i := strings.Index(s, "WARNING: DATA RACE"); i >= 0 {
		s = s[i:]
	}
	if len(s) > 1800 {
		s = s[:1800]
	}
	return s
}

func genC17(t *rapid.T) c17Plan {
	o := gen.DefaultGraphOpts()
	o.MaxDocs = 3
	o.DagPct = 60
	g := gen.Graph(t, o)
	// every plan encodes simple-schema arrays too (array parameters and headers, nested items): their encoders are
	// code of their own
	{
		var root map[string]any
		if json.Unmarshal([]byte(g.Docs[g.Root]), &root) == nil {
			items := map[string]any{"type": "array", "collectionFormat": "csv", "items": map[string]any{"type": "array", "items": map[string]any{"type": "integer", "format": "int32", "x-leaf": true}}}
			params, _ := root["parameters"].(map[string]any)
			if params == nil {
				params = map[string]any{}
				root["parameters"] = params
			}
			for i, n := 0, 1+gen.Uniform(t, "arrayparams", 3); i < n; i++ {
				params[fmt.Sprintf("c17-arr-%d", i)] = map[string]any{"name": fmt.Sprintf("arr%d", i), "in": "query", "type": "array", "items": items, "x-n": i}
			}
			resps, _ := root["responses"].(map[string]any)
			if resps == nil {
				resps = map[string]any{}
				root["responses"] = resps
			}
			defs, _ := root["definitions"].(map[string]any)
			if defs == nil {
				defs = map[string]any{}
				root["definitions"] = defs
			}
			// schemas that say which dialect they are written in (`$schema` has an encoder of its own too)
			for i, n := 0, 1+gen.Uniform(t, "dialects", 3); i < n; i++ {
				defs[fmt.Sprintf("c17-dialect-%d", i)] = map[string]any{"$schema": "http://json-schema.org/draft-04/schema#", "title": fmt.Sprintf("D%d", i),
					"properties": map[string]any{"n": map[string]any{"$schema": "http://json-schema.org/draft-04/schema#", "type": "integer"}}}
			}
			resps["c17-hdr"] = map[string]any{"description": "with array headers", "headers": map[string]any{"X-List": map[string]any{"type": "array", "items": items}, "X-Rate": map[string]any{"type": "integer"}}}
			g.Docs[g.Root] = string(mustJSON(root))
		}
	}
	mg := g.Graph()
	var schemaElems, ptrs []string
	for _, el := range mg.TopElements(g.Root) {
		if el.K == model.KSchema {
			schemaElems = append(schemaElems, el.P.Ptr)
		}
	}
	var rootAny any
	_ = json.Unmarshal([]byte(g.Docs[g.Root]), &rootAny)
	allPointers(rootAny, "", &ptrs)
	var usable []string
	for _, p := range ptrs {
		if !strings.Contains(p, "$ref") {
			usable = append(usable, p)
		}
	}
	twoWorlds := gen.Pct(t, "two worlds", 35)
	sharedOptions := gen.Pct(t, "shared options", 40)
	p := c17Plan{SharedOptions: sharedOptions, Graph: g, GoMaxProcs: []int{1, 2, 4, 16}[gen.Uniform(t, "gomaxprocs", 4)], Fresh: gen.Pct(t, "fresh", 12)}
	if twoWorlds {
		p.Alt = map[string]string{}
		for u, d := range g.Docs {
			p.Alt[u] = strings.ReplaceAll(d, `"title":"`, `"title":"w1-`)
		}
		p.LoaderDelayUS = []int{0, 50, 300, 1000}[gen.Uniform(t, "loader delay", 4)]
	}
	ng := []int{2, 4, 8, 16}[gen.Uniform(t, "goroutines", 4)]
	for gi := 0; gi < ng; gi++ {
		var ops []c17Op
		for oi, n := 0, 1+gen.Uniform(t, "nops", 4); oi < n; oi++ {
			op := c17Op{Yield: gen.Uniform(t, "yield", 4)}
			switch k := gen.Uniform(t, "op", 9); {
			case k <= 1:
				op.Op = "expandspec"
			case k <= 4 && len(schemaElems) > 0:
				op.Op = []string{"expandschema", "expandschema", "expandschema-root"}[gen.Uniform(t, "which", 3)]
				op.Elem = schemaElems[gen.Uniform(t, "elem", len(schemaElems))]
				op.Cache = []string{"none", "own", "shared", "shared"}[gen.Uniform(t, "cache", 4)]
				if op.Op == "expandschema-root" && op.Cache == "shared" {
					op.Cache = "own" // a cache given to the root-based entry point receives the root under the pseudo location: not "the same set of documents"
				}
			case k == 5 && len(schemaElems) > 0:
				op.Op = "resolve"
				op.Elem = "#" + fragmentEsc(schemaElems[gen.Uniform(t, "elem", len(schemaElems))])
			case k == 8 && gen.Pct(t, "badid", 40):
				op.Op = "badid"
				op.Elem = c17BadIDs[gen.Uniform(t, "badidv", len(c17BadIDs))] + fmt.Sprint(gen.Uniform(t, "badidn", 50))
				op.Cache = []string{"none", "own"}[gen.Uniform(t, "cache", 2)]
			case k == 6 || (k == 7 && rapid.Bool().Draw(t, "more marshal")):
				op.Op = "marshal"
			default:
				op.Op = "pointer"
				op.Elem = usable[gen.Uniform(t, "ptr", len(usable))]
			}
			if twoWorlds && gi%2 == 1 {
				// the odd goroutines work on the other documents, through entry points that are given their loader
				op.World = 1
				if op.Op == "expandschema-root" {
					op.Op = "expandschema"
				}
				if op.Cache == "shared" {
					op.Cache = "own"
				}
			}
			ops = append(ops, op)
		}
		p.Goroutines = append(p.Goroutines, ops)
	}
	return p
}

// c17BadIDs: `id`s that net/url refuses (a number is appended: fresh ones in every plan).
var c17BadIDs = []string{"http://[::1/x", "%zz/a.json", "http://h.example/%", "a b://x/", ":nocolon"}

func fragmentEsc(ptr string) string {
	var sb strings.Builder
	for _, c := range []byte(ptr) {
		if c == '%' || c == ' ' || c == '{' || c == '}' || c == '#' || c == '"' || c == '\\' || c == '^' || c == '`' || c == '|' || c == '<' || c == '>' || c < 0x20 || c >= 0x7f || c == '?' {
			fmt.Fprintf(&sb, "%%%02X", c)
		} else {
			sb.WriteByte(c)
		}
	}
	return sb.String()
}

func TestC17(t *testing.T) {
	r := rec("C17")
	rapid.Check(t, func(t *rapid.T) {
		p := genC17(t)
		vstat.InFlight("C17", "plan", p)
		f := oracleC17(p)
		vstat.ClearInFlight("C17")
		r.Eval()
		r.Label(fmt.Sprintf("goroutines=%d", len(p.Goroutines)))
		r.Label(fmt.Sprintf("GOMAXPROCS=%d", p.GoMaxProcs))
		r.LabelIf(p.Fresh, "fresh process (first-use of lazy state)")
		r.LabelIf(p.Alt != nil, "two sets of documents under the same URLs, each with its own loader")
		r.LabelIf(p.LoaderDelayUS > 0, "slow loaders (overlapping retrievals)")
		r.LabelIf(p.SharedOptions, "one options value shared by the goroutines")
		shared := 0
		for _, ops := range p.Goroutines {
			for _, op := range ops {
				r.Label("op=" + op.Op)
				if op.Cache == "shared" || op.Op == "marshal" || op.Op == "pointer" || op.Op == "expandschema-root" || op.Op == "resolve" {
					shared++
				}
			}
		}
		if shared >= 2 {
			r.NonTrivial(mustJSON(p), p)
		}
		verdict(t, "C17", "plan", p, f)
	})
}

func TestReplayC17(t *testing.T) {
	runReplays(t, "C17", func(variant string, raw json.RawMessage) *vstat.Failure {
		var p c17Plan
		if err := json.Unmarshal(raw, &p); err != nil {
			return &vstat.Failure{Atoms: []vstat.Atom{{Kind: "HARNESS", Detail: err.Error()}}}
		}
		f := &vstat.Failure{}
		// a schedule-dependent failure may need several attempts
		for i := 0; i < 20 && f.Empty(); i++ {
			f = oracleC17(p)
		}
		return f
	})
}
