package props

// C05 — Resolving a reference returns exactly the designated sub-document.

import (
	"encoding/json"
	"fmt"
	"reflect"
	"sort"
	"strings"
	"testing"

	"github.com/go-openapi/spec"
	"pgregory.net/rapid"

	"verif/gen"
	"verif/model"
	"verif/vstat"
)

type c05Case struct {
	Graph   gen.GraphCase `json:"graph"`
	Refused []string      `json:"refused,omitempty"`
	Base    string        `json:"base"`  // document the reference is relative to (the root document for the typed/generic root modes)
	Ref     string        `json:"ref"`   // the reference text
	Kind    string        `json:"kind"`  // schema, parameter, response, pathitem, items
	Opts    [3]bool       `json:"opts"`  // ContinueOnError, SkipSchemas, AbsoluteCircularRef: resolution must not depend on them
	Modes   []string      `json:"modes"` // typed, generic, location, plain (= the entry points without base: ResolveRef, ResolveParameter, ResolveResponse)
}

type c05Target struct {
	P    model.Pos
	Kind string
}

// c05Targets lists every position of every document with the kind it can be resolved as.
func c05Targets(g *model.Graph, docs []string) []c05Target {
	var out []c05Target
	kname := map[model.Kind]string{model.KSchema: "schema", model.KParam: "parameter", model.KResponse: "response", model.KPathItem: "pathitem"}
	for _, u := range docs {
		var elems []model.Elem
		elems = append(elems, g.TopElements(u)...)
		if m, ok := g.Docs[u].(map[string]any); ok {
			if _, isSchemaDoc := m["title"]; isSchemaDoc {
				elems = append(elems, model.Elem{P: model.Pos{Doc: u}, K: model.KSchema})
			}
		}
		var walk func(p model.Pos, k model.Kind, depth int)
		walk = func(p model.Pos, k model.Kind, depth int) {
			out = append(out, c05Target{p, kname[k]})
			n, err := g.Get(p)
			if err != nil || depth > 12 {
				return
			}
			if k == model.KParam {
				q, cur := p, n
				for i := 0; i < 4; i++ {
					m, ok := cur.(map[string]any)
					if !ok {
						break
					}
					it, ok := m["items"].(map[string]any)
					if !ok {
						break
					}
					q = q.Child("items")
					out = append(out, c05Target{q, "items"})
					cur = it
				}
			}
			if _, isRef := model.RefOf(n); isRef {
				return
			}
			for _, ch := range model.Children(k, n) {
				walk(p.Child(ch.Toks...), ch.K, depth+1)
			}
		}
		for _, e := range elems {
			walk(e.P, e.K, 0)
		}
	}
	return out
}

func newOfKind(kind string) any {
	switch kind {
	case "schema":
		return new(spec.Schema)
	case "parameter":
		return new(spec.Parameter)
	case "response":
		return new(spec.Response)
	case "pathitem":
		return new(spec.PathItem)
	case "items":
		return new(spec.Items)
	}
	panic(kind)
}

func c05Call(kind, mode string, root any, ref spec.Ref, opts *spec.ExpandOptions) (res any, err error) {
	if mode == "plain" {
		switch kind {
		case "schema":
			return spec.ResolveRef(root, &ref)
		case "parameter":
			return spec.ResolveParameter(root, ref)
		case "response":
			return spec.ResolveResponse(root, ref)
		}
		return nil, fmt.Errorf("harness: no plain entry point for %s", kind)
	}
	switch kind {
	case "schema":
		return spec.ResolveRefWithBase(root, &ref, opts)
	case "parameter":
		return spec.ResolveParameterWithBase(root, ref, opts)
	case "response":
		return spec.ResolveResponseWithBase(root, ref, opts)
	case "pathitem":
		if mode == "typed" {
			return spec.ResolvePathItem(root, ref, opts)
		}
		return spec.ResolvePathItemWithBase(root, ref, opts)
	case "items":
		if mode == "typed" {
			return spec.ResolveItems(root, ref, opts)
		}
		return spec.ResolveItemsWithBase(root, ref, opts)
	}
	panic(kind)
}

type c05Info struct {
	dangling bool
	crossDoc bool
	escaped  bool
	depth    int
}

func oracleC05(c c05Case) (*vstat.Failure, c05Info) {
	f := &vstat.Failure{}
	var info c05Info
	g := c.Graph.Graph()
	refused := map[string]bool{}
	for _, u := range c.Refused {
		refused[u] = true
		g.Refused[u] = true
	}
	ref, err := spec.NewRef(c.Ref)
	if err != nil {
		return f, info // not a reference
	}
	// ---- the model's answer
	tp, rerr := model.Resolve(c.Base, c.Ref)
	var want any
	wantErr := ""
	if rerr != nil {
		wantErr = rerr.Error()
	} else if n, err := g.Get(tp); err != nil {
		wantErr = err.Error()
	} else if _, isObj := n.(map[string]any); !isObj {
		wantErr = fmt.Sprintf("target %s is not an object: %s", tp, model.JS(n))
	} else {
		k := newOfKind(c.Kind)
		if err := json.Unmarshal(mustJSON(n), k); err != nil {
			wantErr = "target does not decode as " + c.Kind + ": " + err.Error()
		} else {
			_ = json.Unmarshal(mustJSON(k), &want)
		}
	}
	info.dangling = wantErr != ""
	info.crossDoc = tp.Doc != c.Base
	info.escaped = strings.ContainsAny(c.Ref, "~%")
	info.depth = len(tp.Tokens())
	results := map[string]string{}
	for _, mode := range c.Modes {
		l := newLoader(c.Graph.Docs, refused)
		opts := &spec.ExpandOptions{RelativeBase: c.Base, PathLoader: l.load, ContinueOnError: c.Opts[0], SkipSchemas: c.Opts[1], AbsoluteCircularRef: c.Opts[2]}
		optsBefore := *opts
		var root any
		var rootBefore []byte
		var typed *spec.Swagger
		var generic any
		switch mode {
		case "typed", "plain":
			typed = new(spec.Swagger)
			if err := json.Unmarshal([]byte(c.Graph.Docs[c.Base]), typed); err != nil {
				f.Add("HARNESS", mode, "root does not decode: %v", err)
				return f, info
			}
			root = typed
			rootBefore = mustJSON(typed)
		case "generic":
			_ = json.Unmarshal([]byte(c.Graph.Docs[c.Base]), &generic)
			root = generic
			rootBefore = mustJSON(generic)
		case "location":
			root = nil
		}
		var res any
		var cerr error
		guard(f, mode, func() { res, cerr = c05Call(c.Kind, mode, root, ref, opts) })
		if !f.Empty() {
			return f, info
		}
		where := fmt.Sprintf("%s root, %s ref %q against %s", mode, c.Kind, c.Ref, c.Base)
		switch {
		case wantErr != "" && cerr == nil:
			f.Add("SILENT-DANGLING", mode, "%s: the reference designates nothing (%s) but the call returned %s with a nil error", where, wantErr, model.JS(res))
		case wantErr == "" && cerr != nil:
			f.Add("SPURIOUS-ERROR", mode, "%s: the reference designates %s, the call failed: %v", where, tp, cerr)
		case wantErr == "":
			if res == nil || reflect.ValueOf(res).IsNil() {
				f.Add("NIL-RESULT", mode, "%s: nil result with nil error", where)
				break
			}
			var got any
			_ = json.Unmarshal(mustJSON(res), &got)
			// reference strings are compared modulo the canonicalisation of C13 (a typed root has already canonicalised them)
			if d := model.Diff(canonRefs(model.Clone(want)), canonRefs(got)); len(d) > 0 {
				f.Add("WRONG-TARGET", mode, "%s: designates %s = %s, the call returned %s (%s)", where, tp, model.JS(want), model.JS(got), d[0].String())
			}
			results[mode] = model.JS(got)
		}
		if rootBefore != nil {
			var after []byte
			if typed != nil {
				after = mustJSON(typed)
			} else {
				after = mustJSON(generic)
			}
			if string(after) != string(rootBefore) {
				f.Add("ROOT-MODIFIED", mode, "%s: the root document changed: %s -> %s", where, clip(rootBefore), clip(after))
			}
		}
		if opts.RelativeBase != optsBefore.RelativeBase || opts.SkipSchemas != optsBefore.SkipSchemas || opts.ContinueOnError != optsBefore.ContinueOnError || opts.AbsoluteCircularRef != optsBefore.AbsoluteCircularRef {
			f.Add("OPTIONS-MODIFIED", mode, "%s: the caller's options changed", where)
		}
	}
	return f, info
}

// canonRefs rewrites every "$ref" string member to its canonical text.
func canonRefs(v any) any {
	switch x := v.(type) {
	case map[string]any:
		for k, e := range x {
			if s, ok := e.(string); ok && k == "$ref" {
				if r, err := spec.NewRef(s); err == nil {
					x[k] = r.String()
				}
				continue
			}
			canonRefs(e)
		}
	case []any:
		for _, e := range x {
			canonRefs(e)
		}
	}
	return v
}

func genC05(t *rapid.T) c05Case {
	o := gen.DefaultGraphOpts()
	o.QuoteNames = true
	o.DagPct = 60
	o.EmptyPct = 5
	g := gen.Graph(t, o)
	var refused []string
	broken := false
	if gen.Pct(t, "faults", 25) {
		g, refused = gen.Break(t, g, 30, 10)
		broken = true
	}
	_ = broken
	mg := g.Graph()
	docs := make([]string, 0, len(g.Docs))
	for u := range g.Docs {
		docs = append(docs, u)
	}
	sort.Strings(docs)
	targets := c05Targets(mg, docs)
	c := c05Case{Graph: g, Refused: refused}
	if gen.Pct(t, "options", 40) {
		c.Opts = [3]bool{rapid.Bool().Draw(t, "continue"), rapid.Bool().Draw(t, "skip"), rapid.Bool().Draw(t, "abs")}
	}
	c.Base = g.Root
	if gen.Pct(t, "otherbase", 30) {
		c.Base = docs[gen.Uniform(t, "base", len(docs))]
	}
	swapped := false
	if len(targets) == 0 {
		c.Kind, c.Ref = "schema", "#/definitions/none"
	} else {
		tg := targets[gen.Uniform(t, "target", len(targets))]
		c.Kind = tg.Kind
		c.Ref = gen.Spell(t, c.Base, tg.P, gen.SpellAll)
		if c.Ref == "" {
			c.Ref = "#"
		}
		switch gen.Uniform(t, "dangle", 12) {
		case 0:
			c.Ref += "/nowhere"
		case 1:
			c.Ref = "missing.json" + c.Ref[strings.Index(c.Ref+"#", "#"):]
		case 2:
			c.Ref += "/0"
		case 3:
			if strings.Contains(c.Ref, "#") {
				c.Ref += "/" + []string{"not", "items", "additionalProperties", "schema", "title", "name", "description", "get", "allOf", "properties", "maximum"}[gen.Uniform(t, "member", 11)]
				swapped = true // if the member exists it is not known to be of the requested kind
			}
		case 5:
			// one token of the pointer replaced by a neighbour that most probably does not exist: another status
			// code or index, `default` turned into a code, a name with one more letter (the model decides)
			if i := strings.Index(c.Ref, "#/"); i >= 0 {
				toks := strings.Split(c.Ref[i+2:], "/")
				k := gen.Uniform(t, "token", len(toks))
				switch tok := toks[k]; {
				case tok == "default":
					toks[k] = []string{"418", "599", "200", "0"}[gen.Uniform(t, "code", 4)]
				case tok != "" && strings.Trim(tok, "0123456789") == "":
					toks[k] = []string{"404", "599", "7", "201", "default"}[gen.Uniform(t, "othernum", 5)]
				default:
					toks[k] = tok + "x"
				}
				c.Ref = c.Ref[:i+2] + strings.Join(toks, "/")
				swapped = true
			}
		case 4:
			// another kind than the target's: still an object, decodes leniently
			c.Kind = []string{"schema", "parameter", "response", "pathitem", "items"}[gen.Uniform(t, "otherkind", 5)]
			swapped = true
		}
	}
	// the base document is given (in memory or by location): it is never one the loader refuses
	kept := c.Refused[:0:0]
	for _, u := range c.Refused {
		if u != c.Base {
			kept = append(kept, u)
		}
	}
	c.Refused = kept
	if c.Base == g.Root {
		c.Modes = []string{"typed", "generic", "location"}
		// the entry points without base are documented for references into the root that designate the requested kind
		if strings.HasPrefix(c.Ref, "#") && !swapped && (c.Kind == "schema" || c.Kind == "parameter" || c.Kind == "response") {
			c.Modes = append(c.Modes, "plain")
		}
	} else {
		c.Modes = []string{"location"}
		if dm, isObj := mg.Docs[c.Base].(map[string]any); isObj {
			if _, isSchemaDoc := dm["title"]; !isSchemaDoc {
				c.Modes = append(c.Modes, "generic")
			}
		}
	}
	return c
}

func TestC05(t *testing.T) {
	r := rec("C05")
	rapid.Check(t, func(t *rapid.T) {
		c := genC05(t)
		vstat.InFlight("C05", "resolve", c)
		f, info := oracleC05(c)
		vstat.ClearInFlight("C05")
		r.Eval()
		r.Count("resolutions", len(c.Modes))
		r.Label("kind=" + c.Kind)
		r.LabelIf(info.dangling, "designates nothing (error expected)")
		r.LabelIf(info.crossDoc, "target in another document")
		r.LabelIf(info.escaped, "escaped pointer")
		r.LabelIf(info.depth >= 4, "pointer depth>=4")
		r.LabelIf(c.Base != c.Graph.Root, "base is not the root document")
		for _, m := range c.Modes {
			r.Label("mode=" + m)
		}
		if info.escaped || info.crossDoc || info.depth >= 4 {
			r.NonTrivial(mustJSON(c), c)
		}
		verdict(t, "C05", "resolve", c, f)
	})
}

func TestReplayC05(t *testing.T) {
	runReplays(t, "C05", func(variant string, raw json.RawMessage) *vstat.Failure {
		var c c05Case
		if err := json.Unmarshal(raw, &c); err != nil {
			return &vstat.Failure{Atoms: []vstat.Atom{{Kind: "HARNESS", Detail: err.Error()}}}
		}
		f, _ := oracleC05(c)
		return f
	})
}
